------------------------------ MODULE MCLexer ------------------------------
(* R1 + R2 for C02/C03: enumerate token strings along the lexer automaton (each control state offers
   a representative of every byte class that state distinguishes), check I-level = P-level on every
   prefix, and print each prefix with its P-level expectation as a CASE line for the harness. *)
EXTENDS Lexer, TLC, Json

CONSTANTS L,          \* maximum number of tokens
          NameMax, ValMax, FieldMax, Mode   \* Mode: "metric" | "event" | "evdeep" (header fixed to the good path) | "both"
VARIABLES inp, q
vars == <<inp, q>>

Offer(s) ==
  CASE s.st = "special" -> (IF Mode \in {"event", "evdeep"} THEN {} ELSE {"a", "c", "/", "!", ":", "1", "."}) \cup (IF Mode = "metric" THEN {} ELSE {"_"})
    [] s.st = "keysep"  -> {":"} \cup (IF Len(inp) < NameMax THEN {"b", "s", "_", "-", "/", " ", "!", "|", "#", "NaN", Esc} ELSE {})
    [] s.st = "valsep"  -> {"|"} \cup (IF Len(s.val) < ValMax THEN {"1.5", "-2", "1e3", "NaN", "-Inf", "1e999", "x1", "a", ":", "@"} ELSE {})
    [] s.st = "type"    -> {"c", "g", "m", "h", "s", "a", "|", "1", "e"}
    [] s.st = "typeM"   -> {"s", "c", "|"}
    [] s.st = "attrs"   -> {"|", "a", "#", "s"}
    [] s.st = "attr0"   -> {"@", "#", "|", "a", "c", ":"}
    [] s.st = "rate"    -> {"|"} \cup (IF Len(s.cur) < 1 THEN {"0.25", "0.0", "-0.5", "NaN", "Inf", "1e999", "1.5", "x1", "a"} ELSE {"1", "@"})
    [] s.st = "tag"     -> {"|", ","} \cup (IF Len(s.cur) < FieldMax THEN {"a", "b", ":", "!", "/", " ", "#", "@", "low"} ELSE {})
    [] s.st = "ignore"  -> {"|"} \cup (IF Len(inp) < L - 1 THEN {"a", ":", "#"} ELSE {})
    [] s.st = "dd"      -> IF Mode = "evdeep" THEN {"e"} ELSE {"e", "a", ":"}
    [] s.st = "ev_open" -> IF Mode = "evdeep" THEN {"{"} ELSE {"{", "a"}
    [] s.st = "ev_n1"   -> IF Mode = "evdeep" THEN (IF s.n1 = <<>> THEN {"0", "1", "2"} ELSE {","})
                           ELSE IF s.hg THEN {","}
                           ELSE {"0", "1", "2", ",", "a", "}", "H32m", "H64"}
    [] s.st = "ev_n2"   -> IF Mode = "evdeep" THEN (IF s.n2 = <<>> THEN {"0", "1", "3"} ELSE {"}"})
                           ELSE IF s.hg /\ s.n2 # <<>> THEN {"}"}
                           ELSE {"0", "1", "3", "}", ",", "a", "H32m", "H32", "H63"}
    [] s.st = "ev_colon" -> IF Mode = "evdeep" THEN {":"} ELSE {":", "|"}
    [] s.st = "ev_title" -> {"a", "|", ":", Esc, " "}
    [] s.st = "ev_hbody" -> {"a", "|"}
    [] s.st = "ev_sep"  -> {"|", "a"}
    [] s.st = "ev_text" -> {"b", "|", Esc, "#", ","}
    [] s.st = "ev_attrs" -> {"|", "a"}
    [] s.st = "ev_attr0" -> {"d", "h", "k", "p", "s", "t", "#", "|", "a", "c", "low"}
    [] s.st = "ev_assert" -> {":", "a", "|"}
    [] s.st = "ev_date" -> {"1", "0", "|", "a", "-2"}
    [] s.st = "ev_val"  -> {"|"} \cup (IF Len(s.cur) < 1 THEN {"a", ":", "low", "normal", "info", "error", "warning", "success", ","} ELSE {"b"})
    [] s.st = "ev_tag"  -> {"|", ","} \cup (IF Len(s.cur) < FieldMax THEN {"a", ":", "!", "#"} ELSE {})
    [] s.st = "ev_ignore" -> {"|", "a", ":"}
    [] OTHER -> {}      \* ERR / ANY: every extension is decided the same way; stop

Init == inp = <<>> /\ q = Q0
Next == \E t \in Offer(q) : inp' = Append(inp, t) /\ q' = Delta(q, t)
Spec == Init /\ [][Next]_vars

Bound == Len(inp) <= L
IAgreesWithP == inp = <<>> \/ Agree(PLine(inp), Final(q))
TokensOnly == \A i \in 1..Len(inp) : inp[i] \in Tokens

Emit == inp = <<>> \/ PrintT(<<"CASE", ToJson([in |-> inp, exp |-> PLine(inp), st |-> q.st])>>)
=============================================================================
