---------------------------- MODULE LambdaExtension ----------------------------
(* I-level model for C20: the Lambda extension with per-invocation flushing, shaped like the code.
     heartbeat (internal/awslambda/extension/manager.go):   Flush();  loop { WaitForFlush(); GET /event/next }
     telemetry handler (telemetry/server.go eventHandler):  for each record of a batch: type = platform.runtimeDone => coordinator.Flush()
     coordinator (internal/flush):                          flushChan of capacity 1; NotifyFlush = blocking send; WaitForFlush = receive
     consolidator.Flush (metric_consolidator.go):           hand everything collected to the forwarder's Run loop
     forwarder Run (handler_http_forwarder_v2.go):          empty batch => notifyFlush; otherwise a goroutine posts (attempt, answer,
                                                            back-off, ... until success or giving up) and then notifyFlush
   Environment: the runtime answers /event/next with INVOKE, the function emits datapoints (accepted into the consolidator), the runtime
   posts telemetry batches: other record types, and one runtime-done record per invocation.
   Deviation switches (FALSE = the code as it is):
     LenientMatch     other record types whose name ends in "RuntimeDone" also flush
     NotifyEarly      the forwarder notifies after the first answered attempt instead of after the delivery attempt as a whole
     NoInitialFlush   the heartbeat does not flush before its first wait
     InitialNotifyOnly  the heartbeat only posts the notification instead of flushing first
   The registration race (added with finding 18): the manager starts the server in a goroutine, waits 100 ms of real time for start-up errors
   and starts the heartbeat; the forwarder registers its consolidator on the coordinator in its constructor, somewhere inside the server's
   start-up.  Nothing orders the two.  StartRace = TRUE lets the server come up (ServerUp) at any point; until then the coordinator's
   target is its placeholder, and nothing can be accepted.  NoopNotifies = FALSE is the code as found (a flush of the placeholder does
   nothing: the heartbeat waits for a notification nobody sends -- NoStall is violated); TRUE is the repair (a flush with nothing
   registered is complete as it stands and says so). *)
EXTENDS Naturals, FiniteSets, TLC
CONSTANTS MaxInv, MaxPoints, MaxAttempts, MaxOther, LenientMatch, NotifyEarly, NoInitialFlush, InitialNotifyOnly, StartRace, NoopNotifies

VARIABLES hb, chan, cons, posts, nextId, rt, inv, pending, others, point, marked, reg,
          accepted, due, settled, inflight, answered, nexts, running, doneSent, faulty, initErr, bad
Prop == INSTANCE LambdaProp
ivars == <<hb, chan, cons, posts, nextId, rt, inv, pending, others, point, marked, reg>>
mvars == <<accepted, due, settled, inflight, answered, nexts, running, doneSent, faulty, initErr, bad>>
vars == <<ivars, mvars>>

Init == /\ hb = (IF NoInitialFlush THEN "wait" ELSE "flush0") /\ chan = 0 /\ cons = {} /\ posts = {} /\ nextId = 1 /\ rt = "idle" /\ inv = 0
        /\ pending = 0 /\ others = 0 /\ point = 1 /\ marked = NoInitialFlush /\ reg = ~StartRace /\ Prop!PInit

\* consolidator.Flush + the forwarder's Run loop taking the batch: an empty batch only notifies
Spawn(st) == /\ posts' = posts \cup {[id |-> nextId, ds |-> cons, st |-> st, n |-> 0, told |-> FALSE]} /\ nextId' = nextId + 1 /\ cons' = {}
DoFlush == IF reg THEN Spawn(IF cons = {} THEN "notify" ELSE "send")
           ELSE IF NoopNotifies THEN posts' = posts \cup {[id |-> nextId, ds |-> {}, st |-> "notify", n |-> 0, told |-> FALSE]} /\ nextId' = nextId + 1 /\ UNCHANGED cons
           ELSE UNCHANGED <<cons, posts, nextId>>
ServerUp == ~reg /\ reg' = TRUE /\ UNCHANGED <<hb, chan, cons, posts, nextId, rt, inv, pending, others, point, marked, mvars>>
\* a bare notification: nothing leaves the consolidator
Spawn0 == posts' = posts \cup {[id |-> nextId, ds |-> {}, st |-> "notify", n |-> 0, told |-> FALSE]} /\ nextId' = nextId + 1 /\ UNCHANGED cons

\* datapoints accepted during the init phase; the mark says they are due with the initial flush
InitEmit == reg /\ hb = "flush0" /\ ~marked /\ point <= MaxPoints /\ cons' = cons \cup {point} /\ point' = point + 1 /\ Prop!PAccept(point)
            /\ UNCHANGED <<hb, chan, posts, nextId, rt, inv, pending, others, marked, reg>>
InitMark == hb = "flush0" /\ ~marked /\ marked' = TRUE /\ Prop!PInitMark /\ UNCHANGED <<hb, chan, cons, posts, nextId, rt, inv, pending, others, point, reg>>
HbFlush0 == /\ hb = "flush0" /\ marked /\ hb' = "wait"
            /\ (IF InitialNotifyOnly THEN Spawn0 ELSE DoFlush)
            /\ UNCHANGED <<chan, rt, inv, pending, others, point, marked, reg, mvars>>
HbWait == hb = "wait" /\ chan = 1 /\ chan' = 0 /\ hb' = "next" /\ Prop!PNextReq /\ UNCHANGED <<cons, posts, nextId, rt, inv, pending, others, point, marked, reg>>
RtInvoke == hb = "next" /\ rt = "idle" /\ pending = 0 /\ inv < MaxInv /\ inv' = inv + 1 /\ rt' = "running" /\ hb' = "wait" /\ others' = 0
            /\ Prop!PInvoke /\ UNCHANGED <<chan, cons, posts, nextId, pending, point, marked, reg>>
FnEmit == reg /\ rt = "running" /\ point <= MaxPoints /\ cons' = cons \cup {point} /\ point' = point + 1 /\ Prop!PAccept(point)
          /\ UNCHANGED <<hb, chan, posts, nextId, rt, inv, pending, others, marked, reg>>
\* a telemetry batch with another record type (platform.start, platform.report, platform.initRuntimeDone, ...)
RtOther == rt \in {"running", "idle"} /\ others < MaxOther /\ others' = others + 1
           /\ (IF LenientMatch THEN DoFlush ELSE UNCHANGED <<cons, posts, nextId>>)
           /\ UNCHANGED <<hb, chan, rt, inv, pending, point, marked, reg, mvars>>
RtDone == rt = "running" /\ rt' = "idle" /\ pending' = pending + 1 /\ Prop!PRuntimeDone /\ UNCHANGED <<hb, chan, cons, posts, nextId, inv, others, point, marked, reg>>
TelFlush == pending > 0 /\ pending' = pending - 1 /\ DoFlush /\ UNCHANGED <<hb, chan, rt, inv, others, point, marked, reg, mvars>>

Upd(p, q) == posts' = (posts \ {p}) \cup {q}
PostAttempt(p) == p.st = "send" /\ Upd(p, [p EXCEPT !.st = "flight", !.n = @ + 1]) /\ Prop!PUpReq(p.ds)
                  /\ UNCHANGED <<hb, chan, cons, nextId, rt, inv, pending, others, point, marked, reg>>
\* the answer: success ends the delivery; failure backs off and retries until the window is over (MaxAttempts)
PostAnswer(p, ok) == /\ p.st = "flight" /\ Prop!PUpDone(p.ds)
                     /\ LET done == ok \/ p.n >= MaxAttempts
                            early == NotifyEarly /\ ~p.told /\ ~done IN
                        IF early /\ chan = 0
                        THEN chan' = 1 /\ Upd(p, [p EXCEPT !.st = "send", !.told = TRUE])
                        ELSE ~early /\ chan' = chan /\ Upd(p, [p EXCEPT !.st = IF done THEN (IF p.told THEN "gone" ELSE "notify") ELSE "send"])
                     /\ UNCHANGED <<hb, cons, nextId, rt, inv, pending, others, point, marked, reg>>
PostNotify(p) == p.st = "notify" /\ chan = 0 /\ chan' = 1 /\ posts' = posts \ {p} /\ UNCHANGED <<hb, cons, nextId, rt, inv, pending, others, point, marked, reg, mvars>>
PostGone(p) == p.st = "gone" /\ posts' = posts \ {p} /\ UNCHANGED <<hb, chan, cons, nextId, rt, inv, pending, others, point, marked, reg, mvars>>

Next == ServerUp \/ InitEmit \/ InitMark \/ HbFlush0 \/ HbWait \/ RtInvoke \/ FnEmit \/ RtOther \/ RtDone \/ TelFlush
        \/ \E p \in posts : PostAttempt(p) \/ PostNotify(p) \/ PostGone(p) \/ \E ok \in BOOLEAN : PostAnswer(p, ok)
Spec == Init /\ [][Next]_vars
MonitorQuiet == bad = ""
\* the heartbeat is not left waiting for a notification nobody will send
NoStall == ~(hb = "wait" /\ chan = 0 /\ posts = {} /\ pending = 0 /\ rt = "idle")
ChanBound == chan \in 0..1
=============================================================================
