---------------------------- MODULE PipelineSched ----------------------------
(* R2 for C01: stimulus schedules for the real pipeline. A schedule is a configuration (parsers, workers, queue size)
   and a sequence of environment stimuli; after each stimulus the driver waits for quiescence (synctest.Wait):
     offer k     a client offers datagram-batch shape k to the parser input channel
     tick        virtual time advances to the next flush boundary
     close g / open g   a gate at a seam of the code is closed / opened:
        merge.s    worker s is held inside Aggregator.ReceiveMap (before merging)
        flush.s    worker s is held at the entry of Aggregator.Flush (it has taken the process command)
        post.s     worker s is held between Aggregator.Process and Aggregator.Reset
        backend    the backend withholds its completion callbacks
   These are the windows Pipeline.tla names (queue non-empty while the flusher waits on processChan; input between
   Process and Reset; input while a send is in flight). The driver appends the epilogue: open every gate, three ticks.
   Core lists hand-written schedules that reach each named situation; the rest is explored by BFS / -simulate. *)
EXTENDS Naturals, Sequences, FiniteSets, TLC, Json

CONSTANTS MaxLen, MaxOffers, MaxTicks, Shapes

Cfgs == {[p |-> 1, w |-> 1, q |-> 0], [p |-> 2, w |-> 2, q |-> 0], [p |-> 2, w |-> 2, q |-> 1], [p |-> 1, w |-> 3, q |-> 2],
         [p |-> 3, w |-> 2, q |-> 1], [p |-> 2, w |-> 3, q |-> 0]}
VARIABLES cfg, sched, closed
vars == <<cfg, sched, closed>>

Gates(c) == {[kind |-> k, s |-> s] : k \in {"merge", "flush", "post"}, s \in 0..(c.w - 1)} \cup {[kind |-> "backend", s |-> 0]}
Count(op) == Cardinality({i \in 1..Len(sched) : sched[i].op = op})
Init == cfg \in Cfgs /\ sched = <<>> /\ closed = {}
Offer == Count("offer") < MaxOffers /\ \E k \in Shapes : sched' = Append(sched, [op |-> "offer", k |-> k, g |-> [kind |-> "", s |-> 0]]) /\ UNCHANGED closed
Tick  == Count("tick") < MaxTicks /\ sched' = Append(sched, [op |-> "tick", k |-> 0, g |-> [kind |-> "", s |-> 0]]) /\ UNCHANGED closed
Close == \E g \in Gates(cfg) \ closed : Cardinality(closed) < 2 /\ sched' = Append(sched, [op |-> "close", k |-> 0, g |-> g]) /\ closed' = closed \cup {g}
Open  == \E g \in closed : sched' = Append(sched, [op |-> "open", k |-> 0, g |-> g]) /\ closed' = closed \ {g}
Next == Len(sched) < MaxLen /\ (Offer \/ Tick \/ Close \/ Open) /\ UNCHANGED cfg
Spec == Init /\ [][Next]_vars

Emit == Len(sched) < 3 \/ sched[Len(sched)].op = "close" \/ PrintT(<<"CASE", ToJson([cfg |-> cfg, sched |-> sched])>>)
=============================================================================
