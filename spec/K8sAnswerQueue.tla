--------------------------- MODULE K8sAnswerQueue ---------------------------
(* I-level for C13, the part K8sProvider.tla's sequential histories leave out: the loop of Provider.Run (pkg/cachedinstances/k8s/k8s.go)
   between IpSink and InfoSource when the consumer is behind.
     Take(ip)   case ip := <-p.ipSinkSource: the answer is computed NOW (instanceFromCache) and pushed on infoToSend;
                then, if no send is armed, the last element is popped into info and the send is armed
     Read       case infoSink <- info: the consumer takes the armed answer; the next one is popped
     Update(ip) the pod holding ip changes (informer event + invalidation; K8sProvider.tla has the details): its version goes up
   What C13 needs of it: every lookup is answered exactly once, and with the pod version that was current when the lookup was taken --
   so that a lookup made after an update is answered with the updated pod, however far behind the consumer is.
   Deviation Coalesce (round-5 seeded change): a lookup for an IP that still has an answer waiting to be read is dropped. *)
EXTENDS Naturals, Sequences, FiniteSets, TLC

CONSTANTS IPs, MaxLookups, MaxVer, Coalesce

VARIABLES ver,       \* ip -> version of the pod that holds it now
          armed,     \* <<>> or <<answer>>: the InstanceInfo held in `info` with the send enabled
          stack,     \* infoToSend
          lookups,   \* history: the lookups taken, each with the version current at that moment
          answers    \* history: the answers the consumer has read

vars == <<ver, armed, stack, lookups, answers>>

Init == ver = [i \in IPs |-> 1] /\ armed = <<>> /\ stack = <<>> /\ lookups = <<>> /\ answers = <<>>

Arm(a, s) == IF a = <<>> /\ s # <<>> THEN <<<<s[Len(s)]>>, SubSeq(s, 1, Len(s) - 1)>> ELSE <<a, s>>

Undelivered == {x.ip : x \in {armed[k] : k \in DOMAIN armed} \cup {stack[k] : k \in DOMAIN stack}}

Take(ip) ==
  /\ Len(lookups) < MaxLookups
  /\ lookups' = Append(lookups, [ip |-> ip, ver |-> ver[ip]])
  /\ LET s == IF Coalesce /\ ip \in Undelivered THEN stack ELSE Append(stack, [ip |-> ip, ver |-> ver[ip]])
         r == Arm(armed, s)
     IN armed' = r[1] /\ stack' = r[2]
  /\ UNCHANGED <<ver, answers>>

Read ==
  /\ armed # <<>>
  /\ answers' = Append(answers, armed[1])
  /\ LET r == Arm(<<>>, stack) IN armed' = r[1] /\ stack' = r[2]
  /\ UNCHANGED <<ver, lookups>>

Update(ip) == ver[ip] < MaxVer /\ ver' = [ver EXCEPT ![ip] = @ + 1] /\ UNCHANGED <<armed, stack, lookups, answers>>

Next == Read \/ \E ip \in IPs : Take(ip) \/ Update(ip)
Spec == Init /\ [][Next]_vars

Count(s, x) == Cardinality({k \in DOMAIN s : s[k] = x})
Waiting == armed \o stack
\* every lookup has exactly one answer: read already, armed, or stacked -- as multisets of (ip, version at the time of the lookup)
OneAnswerPerLookup == \A x \in {lookups[k] : k \in DOMAIN lookups} : Count(lookups, x) = Count(answers, x) + Count(Waiting, x)
NoPhantomAnswer    == \A x \in {answers[k] : k \in DOMAIN answers} \cup {Waiting[k] : k \in DOMAIN Waiting} : Count(lookups, x) > 0
\* a send is armed whenever something waits (the consumer is never starved by the loop)
ArmedWhenWaiting   == stack # <<>> => armed # <<>>
=============================================================================
