---------------------------- MODULE ShutdownSched ----------------------------
(* R2 for X02: server configurations and stimulus schedules.
   cfg: mode (standalone: B recording backends | forwarder: one scripted upstream, counted as backend 1, whose client gives up after 10 s) x
        expiry (seconds after which an idle series is dropped; 0 = never) x workers (aggregators) x queue (per-worker queue size) x backends x cloud (an instance-lookup stage in front, lookups answered after
        10 ms) x events (internal start / stop events enabled)
     dg k      a datagram with k counter lines             ev        a datagram with an event line
     bad       a datagram with a line the parser rejects and one it accepts
     hold b / release b    backend b stops / resumes answering flushes and events (it honours the contexts it is given)
     adv d     d x 100 ms of virtual time pass (the flush interval is 1 s)
     stop      the server's context is cancelled; what follows in the schedule happens during / after shutdown
   Epilogue by the driver: stop if the schedule did not, wait for Run to return, let go of every backend, wait for stragglers. *)
EXTENDS Naturals, Sequences, TLC, Json
CONSTANTS MaxLen
VARIABLES cfg, sched
Cfgs == {[mode |-> "standalone", workers |-> w, queue |-> q, backends |-> b, cloud |-> c, events |-> e, expiry |-> x] :
            w \in {1, 2}, q \in {1, 2}, b \in {1, 2}, c \in BOOLEAN, e \in BOOLEAN, x \in {0, 300}}
        \cup {[mode |-> "forwarder", workers |-> 1, queue |-> 1, backends |-> 1, cloud |-> c, events |-> e, expiry |-> 300] : c \in BOOLEAN, e \in BOOLEAN}
O(op, k) == [op |-> op, k |-> k]
Ops(c) == {O("dg", 1), O("dg", 3), O("ev", 0), O("bad", 0), O("adv", 1), O("adv", 12), O("stop", 0)} \cup {O("hold", b) : b \in 1..c.backends} \cup {O("release", b) : b \in 1..c.backends}
Init == cfg \in Cfgs /\ sched = <<>>
Next == Len(sched) < MaxLen /\ \E o \in Ops(cfg) : sched' = Append(sched, o) /\ UNCHANGED cfg
Spec == Init /\ [][Next]_<<cfg, sched>>
C(w, q, b, c, e) == [mode |-> "standalone", workers |-> w, queue |-> q, backends |-> b, cloud |-> c, events |-> e, expiry |-> 300]
C0(w, q, b, c, e) == [mode |-> "standalone", workers |-> w, queue |-> q, backends |-> b, cloud |-> c, events |-> e, expiry |-> 0]
F(c, e) == [mode |-> "forwarder", workers |-> 1, queue |-> 1, backends |-> 1, cloud |-> c, events |-> e, expiry |-> 300]
Core == {
  [cfg |-> C(2, 2, 2, FALSE, TRUE), sched |-> <<O("dg", 3), O("adv", 12), O("ev", 0), O("adv", 3)>>],
  \* stopped while the only worker waits on a stuck backend, its queue is full and both parsers wait to dispatch
  [cfg |-> C(1, 1, 1, FALSE, TRUE), sched |-> <<O("hold", 1), O("dg", 3), O("adv", 12), O("dg", 3), O("dg", 3), O("dg", 3), O("dg", 1), O("stop", 0), O("dg", 1)>>],
  [cfg |-> C(1, 1, 1, TRUE, TRUE), sched |-> <<O("hold", 1), O("dg", 3), O("adv", 12), O("dg", 1), O("dg", 1), O("dg", 1), O("ev", 0), O("stop", 0), O("dg", 1)>>],
  [cfg |-> C(2, 1, 2, TRUE, FALSE), sched |-> <<O("dg", 3), O("ev", 0), O("hold", 2), O("adv", 12), O("ev", 0), O("ev", 0), O("stop", 0), O("release", 2)>>],
  [cfg |-> C(1, 2, 2, FALSE, TRUE), sched |-> <<O("stop", 0), O("dg", 1)>>],                      \* stopped before anything happened
  [cfg |-> C(2, 2, 1, TRUE, TRUE), sched |-> <<O("dg", 1), O("adv", 12), O("adv", 12), O("dg", 3)>>],
  [cfg |-> F(FALSE, TRUE), sched |-> <<O("dg", 3), O("adv", 12), O("ev", 0), O("adv", 3)>>],
  \* traffic spread over several flush intervals, so that the server's own running totals have to move (AccountingProp)
  [cfg |-> C0(1, 2, 1, FALSE, FALSE), sched |-> <<O("dg", 3), O("adv", 12), O("adv", 12), O("dg", 1), O("adv", 12), O("adv", 12), O("dg", 1), O("bad", 0), O("ev", 0), O("adv", 12)>>],
  [cfg |-> C(2, 2, 2, TRUE, TRUE), sched |-> <<O("dg", 3), O("adv", 12), O("adv", 12), O("dg", 1), O("adv", 12), O("adv", 12), O("ev", 0), O("bad", 0), O("adv", 12)>>],
  [cfg |-> F(FALSE, TRUE), sched |-> <<O("dg", 3), O("adv", 12), O("adv", 12), O("dg", 1), O("adv", 12), O("adv", 12), O("ev", 0), O("bad", 0), O("adv", 12)>>],
  \* a forwarder stopped while its upstream does not answer: a flush, a client event and the stop event are all in flight
  [cfg |-> F(FALSE, TRUE), sched |-> <<O("hold", 1), O("dg", 3), O("adv", 12), O("dg", 1), O("ev", 0), O("stop", 0), O("dg", 1)>>],
  [cfg |-> F(TRUE, TRUE), sched |-> <<O("dg", 3), O("ev", 0), O("adv", 12), O("hold", 1), O("adv", 12), O("stop", 0), O("release", 1)>>]
}
ASSUME \A c \in Core : PrintT(<<"CASE", ToJson(c)>>)
Emit == Len(sched) < MaxLen \/ PrintT(<<"CASE", ToJson([cfg |-> cfg, sched |-> sched])>>)
=============================================================================
