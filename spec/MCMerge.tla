------------------------------- MODULE MCMerge -------------------------------
(* R1 + R2 for C07: enumerate families of maps from a pool, check MergeLaw, print each family with its canonical
   aggregate (per key the set of allowed data) for the harness, which runs every merge tree through the real code. *)
EXTENDS MetricMap

CONSTANTS MaxMaps, PoolKind     \* PoolKind: "single" (one key per map, all types) | "gauge" (ties) | "mixed"

K(ty, s) == [ty |-> ty, s |-> s]
One(k, d) == [x \in {k} |-> d]
CounterData == {[v |-> v, ts |-> t] : v \in Vals \cup {0}, t \in 1..2}   \* 0: "c:0|c" and the aggregator's idle placeholder
GaugeData   == {[v |-> v, ts |-> t] : v \in Vals, t \in 1..2}
TimerData   == {[bag |-> BagOf(1), cnt |-> 1, ts |-> 1], [bag |-> BagOf(2), cnt |-> 2, ts |-> 1],
                [bag |-> BagOf(1), cnt |-> 2, ts |-> 2], [bag |-> BagAdd(BagOf(2), BagOf(2)), cnt |-> 4, ts |-> 2]}
SetData     == {[mem |-> {"a"}, ts |-> 1], [mem |-> {"b"}, ts |-> 2], [mem |-> {"a", "b"}, ts |-> 1], [mem |-> {}, ts |-> 2]}
Single == {One(K("counter", "x"), d) : d \in CounterData} \cup {One(K("gauge", "x"), d) : d \in GaugeData}
          \cup {One(K("timer", "x"), d) : d \in TimerData} \cup {One(K("set", "x"), d) : d \in SetData}
GaugeOnly == {One(K("gauge", "x"), [v |-> v, ts |-> t]) : v \in {1, 2, 3}, t \in 1..2}
Full(v, t) == [k \in {K("counter", "x"), K("gauge", "x"), K("gauge", "y"), K("timer", "x"), K("set", "x")} |->
                 CASE k.ty = "counter" -> [v |-> v, ts |-> t] [] k.ty = "gauge" -> [v |-> IF k.s = "y" THEN 3 - v ELSE v, ts |-> t]
                   [] k.ty = "timer" -> [bag |-> BagOf(v), cnt |-> v, ts |-> t] [] OTHER -> [mem |-> {IF v = 1 THEN "a" ELSE "b"}, ts |-> t]]
Mixed == {Full(v, t) : v \in Vals, t \in 1..2} \cup {One(K("gauge", "y"), [v |-> 1, ts |-> 2]), One(K("counter", "y"), [v |-> 2, ts |-> 1])}
\* two timer series that may share a name (the harness makes y differ from x in name, source or tags only), sampled
Timers == {[k \in {K("timer", "x"), K("timer", "y")} |-> IF k.s = "x" THEN d1 ELSE d2] : d1, d2 \in TimerData}
          \cup {One(K("timer", s), d) : s \in {"x", "y"}, d \in TimerData}
Pool == CASE PoolKind = "single" -> Single [] PoolKind = "gauge" -> GaugeOnly [] PoolKind = "timers" -> Timers [] OTHER -> Mixed \cup {One(K("gauge", "x"), [v |-> 2, ts |-> 1])}

VARIABLE fam
Init == fam = <<>>
Next == Len(fam) < MaxMaps /\ \E m \in Pool : fam' = Append(fam, m)
Spec == Init /\ [][Next]_fam

Law == MergeLaw(fam)

Entries(mm) == {[ty |-> k.ty, s |-> k.s, d |-> mm[k]] : k \in DOMAIN mm}
Emit == Len(fam) < 2 \/
        PrintT(<<"CASE", ToJson([maps |-> [i \in 1..Len(fam) |-> Entries(fam[i])],
                                 canon |-> {[ty |-> k.ty, s |-> k.s, allowed |-> Allowed(fam, k)] : k \in Keys(fam)}])>>)
=============================================================================
