------------------------------ MODULE MetricMap ------------------------------
(* The aggregate algebra of metric_map.go (C06, C07; imported by the pipeline specs).

   A map is a function from series keys to data. Key = [ty, s]; datum by type:
     counter [v, ts]            gauge [v, ts]
     timer   [bag, cnt, ts]     (bag: value -> multiplicity;  cnt = sampled count)
     set     [mem, ts]

   I-level  Merge(into, from)  = MetricMap.Merge: MergeCounter / MergeGauge (replace only when strictly newer) /
                                 MergeSet / MergeTimer, timestamp = max;  Split(mm, n) by a constant Bucket function.
   P-level  Canonical(F)       = the set of aggregates the statement of C07 allows for a family F of maps
            IsPartition(mm, sh)= the statement of C06.
   MergeLaw: every ordered binary merge tree over F (all permutations x all bracketings, which includes every
            assignment of batches to consolidator slots followed by MergeMaps) evaluates into Canonical(F). *)
EXTENDS Naturals, FiniteSets, Sequences, TLC, Json

Vals == {1, 2}
ZeroBag == [v \in Vals |-> 0]
BagOf(v) == [x \in Vals |-> IF x = v THEN 1 ELSE 0]
BagAdd(a, b) == [x \in Vals |-> a[x] + b[x]]
Max(a, b) == IF a < b THEN b ELSE a

MergeDatum(ty, into, from) ==
  CASE ty = "counter" -> [v |-> into.v + from.v, ts |-> Max(into.ts, from.ts)]
    [] ty = "gauge"   -> IF into.ts < from.ts THEN from ELSE into
    [] ty = "timer"   -> [bag |-> BagAdd(into.bag, from.bag), cnt |-> into.cnt + from.cnt, ts |-> Max(into.ts, from.ts)]
    [] OTHER          -> [mem |-> into.mem \cup from.mem, ts |-> Max(into.ts, from.ts)]

Merge(into, from) ==
  [k \in DOMAIN into \cup DOMAIN from |->
     IF k \notin DOMAIN from THEN into[k]
     ELSE IF k \notin DOMAIN into THEN from[k]
     ELSE MergeDatum(k.ty, into[k], from[k])]

\* ---------------------------------------------------------------- P-level: C07
RECURSIVE SumSeq(_)
SumSeq(ns) == IF ns = <<>> THEN 0 ELSE Head(ns) + SumSeq(Tail(ns))
SumOver(F, k, f(_)) == SumSeq([i \in 1..Len(F) |-> IF k \in DOMAIN F[i] THEN f(F[i][k]) ELSE 0])
Data(F, k) == {F[i][k] : i \in {j \in 1..Len(F) : k \in DOMAIN F[j]}}
MaxTs(F, k) == CHOOSE t \in {d.ts : d \in Data(F, k)} : \A d \in Data(F, k) : d.ts <= t
Keys(F) == UNION {DOMAIN F[i] : i \in 1..Len(F)}
Allowed(F, k) ==
  CASE k.ty = "counter" -> {[v |-> SumOver(F, k, LAMBDA d : d.v), ts |-> MaxTs(F, k)]}
    [] k.ty = "gauge"   -> {[v |-> d.v, ts |-> MaxTs(F, k)] : d \in {e \in Data(F, k) : e.ts = MaxTs(F, k)}}
    [] k.ty = "timer"   -> {[bag |-> [x \in Vals |-> SumOver(F, k, LAMBDA d : d.bag[x])],
                             cnt |-> SumOver(F, k, LAMBDA d : d.cnt), ts |-> MaxTs(F, k)]}
    [] OTHER            -> {[mem |-> UNION {d.mem : d \in Data(F, k)}, ts |-> MaxTs(F, k)]}
InCanonical(F, mm) == DOMAIN mm = Keys(F) /\ \A k \in Keys(F) : mm[k] \in Allowed(F, k)

\* all results of ordered binary merge trees whose leaves are exactly the members (by index) of I
RECURSIVE Results(_, _)
Results(F, I) ==
  IF Cardinality(I) = 1 THEN {F[CHOOSE i \in I : TRUE]}
  ELSE UNION {{Merge(x, y) : x \in Results(F, A), y \in Results(F, I \ A)} : A \in (SUBSET I) \ {{}, I}}
MergeLaw(F) == F = <<>> \/ \A r \in Results(F, 1..Len(F)) : InCanonical(F, r)

\* ---------------------------------------------------------------- C06
SplitBy(mm, n, bucket(_, _)) == [i \in 0..(n - 1) |-> [k \in {x \in DOMAIN mm : bucket(x, n) = i} |-> mm[k]]]
IsPartition(mm, sh, n) ==
  /\ DOMAIN sh = 0..(n - 1)
  /\ \A i, j \in 0..(n - 1) : i # j => DOMAIN sh[i] \cap DOMAIN sh[j] = {}
  /\ UNION {DOMAIN sh[i] : i \in 0..(n - 1)} = DOMAIN mm
  /\ \A i \in 0..(n - 1) : \A k \in DOMAIN sh[i] : sh[i][k] = mm[k]
=============================================================================
