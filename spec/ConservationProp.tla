-------------------------- MODULE ConservationProp --------------------------
(* P-level monitor for C01 (and the end-to-end clause of C06), written from the statement; driven by observed events.

     POffer(pts, ks)                  a datagram batch is offered to the parser input; pts = its datapoints [id, k]
                                      (k = series key; ids are unique); ks = series it carries gauge values for
     PReport(flush, who, series, news) a map is handed to a backend in flush number `flush` by reporter `who`:
                                      the series it mentions and the datapoint ids its new data accounts for (the driver
                                      decodes them: counter weights are distinct powers of two per series, timer values and
                                      set members are unique; an undecodable remainder becomes an id that was never offered)
     PQuiesce                         no input for two full flushes

   Clauses (the first broken one is latched in bad):
     NoPhantom        nothing is reported for a series that was never offered
     NoDupInFlush     no series is reported twice within one flush
     ExactlyOneFlush  every reported datapoint was offered and not reported before; at quiescence none is left
     SameAggregator   a series is always reported by the same reporter (C06)
     OncePerFlush     every reporter (aggregator shard) reports once per flush: none reports a second time while another has not yet
                      reported for the flush before (active when the number of reporters is known, nrep > 0) *)
EXTENDS Integers, FiniteSets, Sequences

VARIABLES inflight, done, known, seen, owner, bad, cnt, nrep
pvars == <<inflight, done, known, seen, owner, bad, cnt, nrep>>

PInit == inflight = {} /\ done = {} /\ known = {} /\ seen = <<>> /\ owner = <<>> /\ bad = "" /\ cnt = <<>> /\ nrep = 0
Cnt(w) == IF w \in DOMAIN cnt THEN cnt[w] ELSE 0
Latch(v) == bad' = IF bad # "" THEN bad ELSE v

\* ks: series offered with data the conservation clause does not speak of (gauges): they become known, nothing is in flight
POffer(pts, ks) ==
  /\ inflight' = inflight \cup {p.id : p \in pts}
  /\ known' = known \cup {p.k : p \in pts} \cup ks
  /\ UNCHANGED <<done, seen, owner, bad, cnt, nrep>>

PReport(flush, who, series, news) ==
  LET already == IF flush \in DOMAIN seen THEN seen[flush] ELSE {}
      verdict == IF ~(series \subseteq known) THEN "NoPhantom"
                 ELSE IF series \cap already # {} THEN "NoDupInFlush"
                 ELSE IF news \cap done # {} THEN "ExactlyOneFlush(reported twice)"
                 ELSE IF ~(news \subseteq inflight) THEN "ExactlyOneFlush(never offered)"
                 \* the two reporter clauses speak of aggregator shards: a map the driver cannot attribute to one (who = -1: the server
                 \* handed the backend a map that is none of the aggregators' own, e.g. a consolidated copy) is judged by the clauses above only
                 ELSE IF who >= 0 /\ \E k \in series : k \in DOMAIN owner /\ owner[k] # who THEN "SameAggregator"
                 ELSE IF who >= 0 /\ nrep > 0 /\ \E w \in 0..(nrep - 1) : w # who /\ Cnt(w) + 1 < Cnt(who) + 1 THEN "OncePerFlush(a shard reported twice within one flush)"
                 ELSE ""
  IN /\ Latch(verdict)
     /\ inflight' = inflight \ news
     /\ done' = done \cup news
     /\ seen' = [f \in DOMAIN seen \cup {flush} |-> IF f = flush THEN already \cup series ELSE seen[f]]
     /\ owner' = IF who < 0 THEN owner ELSE [k \in DOMAIN owner \cup series |-> IF k \in DOMAIN owner THEN owner[k] ELSE who]
     /\ cnt' = IF who < 0 THEN cnt ELSE [w \in DOMAIN cnt \cup {who} |-> IF w = who THEN Cnt(who) + 1 ELSE cnt[w]]
     /\ UNCHANGED <<known, nrep>>

PQuiesce == /\ Latch(IF inflight # {} THEN "ExactlyOneFlush(lost)" ELSE "")
            /\ UNCHANGED <<inflight, done, known, seen, owner, cnt, nrep>>

PropertyHolds == bad = ""
=============================================================================
