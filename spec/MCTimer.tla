------------------------------- MODULE MCTimer -------------------------------
(* R1 + R2 for C08 / C04: enumerate value bags (as sorted sequences) x inverse-rate patterns, check the transcription
   against the declarative statistics and its own index bounds, and print every case with the P-level expectation. *)
EXTENDS TimerStats

CONSTANTS MaxN, ValSet, Pcts, Mode      \* Mode: "summary" | "hist"

InvPat(n, pat) == [i \in 1..n |-> CASE pat = 1 -> 1 [] pat = 2 -> (<<1, 2, 4, 10, 2, 1, 4, 2, 10, 1>>)[i] [] OTHER -> 10]
Item(ok, b) == [ok |-> ok, b |-> b]
TagPool == << <<Item(TRUE, 0), Item(TRUE, 2)>>,                       \* "0_2"
              <<Item(FALSE, 0), Item(TRUE, 1), Item(FALSE, 0), Item(TRUE, -1), Item(TRUE, 3)>>,   \* "x_1__-1_3"
              <<>>,                                                     \* "" -> one unparsable empty item
              <<Item(TRUE, 1), Item(TRUE, 1), Item(TRUE, 5)>>,        \* duplicates "1_1_5"
              <<Item(FALSE, 0)>>,                                      \* "abc"
              <<Item(TRUE, 1), Item(FALSE, 0), Item(FALSE, 0)>> >>     \* "1_x_x": more raw items than the limit, fewer parsed ones
Limits == {0, 1, 2, 1000}

VS5 == {-2, -1, 0, 1, 3}
VS6 == {-3, -1, 0, 2, 4, 7}
PctAll == {-100, -99, -90, -50, -10, -1, 0, 1, 10, 50, 90, 99, 100}

VARIABLES vals, pat, tag, limit
vars == <<vals, pat, tag, limit>>
Init == vals = <<>> /\ pat \in 1..3 /\ (IF Mode = "hist" THEN tag \in 1..Len(TagPool) /\ limit \in Limits ELSE tag = 0 /\ limit = 0)
Next == /\ Len(vals) < MaxN
        /\ \E v \in ValSet : (IF vals = <<>> THEN TRUE ELSE vals[Len(vals)] <= v) /\ vals' = Append(vals, v)
        /\ UNCHANGED <<pat, tag, limit>>
Spec == Init /\ [][Next]_vars

\* the transcription never indexes out of range and computes what the statement says
IndexSafe == \A p \in Pcts : IPctInBounds(p, Len(vals))
IAgreesWithP == vals = <<>> \/ \A p \in Pcts : IPct(vals, p) \in PPct(vals, p)

Emit == IF Mode = "summary"
        THEN PrintT(<<"CASE", ToJson([mode |-> "summary", vals |-> vals, invs |-> InvPat(Len(vals), pat),
                                      exp |-> PSummary(vals, InvPat(Len(vals), pat)),
                                      pcts |-> [p \in Pcts |-> IF vals = <<>> THEN {} ELSE PPct(vals, p)]])>>)
        ELSE PrintT(<<"CASE", ToJson([mode |-> "hist", vals |-> vals, invs |-> InvPat(Len(vals), pat), tag |-> tag, limit |-> limit,
                                      exp |-> PHist(vals, TagPool[tag], limit)])>>)
=============================================================================
