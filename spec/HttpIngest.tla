----------------------------- MODULE HttpIngest -----------------------------
(* C03 / C14 (ingestion side): pkg/web/http_receiver_v2.go readBody + MetricHandler / EventHandler as a decision
   table over request classes, and sequences of requests on one server (a bad request must not affect later ones).

   P-level  Outcome(req) in {"accept", "reject", "either"}:
              accept  = status 202 and exactly one dispatch carrying the decoded payload
              reject  = status >= 400 and no dispatch
              either  = the statement does not say whether this body is decodable (e.g. random bytes may or may not be
                        a protobuf message); whichever it is, status and dispatch must be consistent
            and always: exactly one status per request; dispatch iff status = 202.
   I-level  Handle(req): the code's order of checks -- read, switch on Content-Encoding (deflate / lz4 / identity / "" /
            other -> 400), decompress error -> 400, proto.Unmarshal error -> 400, else dispatch + 202. *)
EXTENDS Sequences, Naturals, TLC, Json

CONSTANT MaxReqs

Endpoints == {"raw", "event"}
Encodings == {"", "identity", "deflate", "lz4", "gzip", "x-long"}
Bodies    == {"proto", "empty", "garbage", "z_proto", "z_garbage", "z_trunc", "z_empty", "l_proto", "l_garbage", "l_trunc", "l_empty",
              \* frame-structure classes: lz4 frame with the content-size field present and truthful / lying (small, huge),
              \* block checksums on, a block length field larger than the frame; zlib stream announcing a preset dictionary
              "l_sized", "l_size_lie", "l_size_huge", "l_blocksum", "l_blocklen_lie", "z_dictflag"}

\* what the encoding layer yields: the payload class, or "fail", or "unknown" (library-dependent)
Decompressed(enc, body) ==
  CASE enc \in {"", "identity"} -> (IF body \in {"proto", "empty"} THEN body ELSE "garbage")
    [] enc = "deflate" -> (CASE body = "z_proto" -> "proto" [] body = "z_garbage" -> "garbage" [] body = "z_empty" -> "empty"
                             [] body \in {"z_trunc", "z_dictflag", "empty", "l_proto", "l_garbage", "l_trunc", "l_empty", "l_sized",
                                          "l_size_lie", "l_size_huge", "l_blocksum", "l_blocklen_lie"} -> "fail"
                             [] OTHER -> "unknown")
    [] enc = "lz4" -> (CASE body \in {"l_proto", "l_sized", "l_blocksum"} -> "proto" [] body = "l_garbage" -> "garbage" [] body = "l_empty" -> "empty"
                         [] body \in {"z_proto", "z_garbage", "z_trunc", "z_empty", "z_dictflag"} -> "fail"
                         [] OTHER -> "unknown")
    [] OTHER -> "badenc"

Outcome(req) ==
  LET d == Decompressed(req.enc, req.body) IN
  CASE d \in {"badenc", "fail"} -> "reject"
    [] d \in {"proto", "empty"} -> "accept"     \* an empty body is the empty message
    [] OTHER -> "either"

\* I-level: same table, in the code's order; "unmarshal" is the library call whose result the model does not predict
Handle(req) ==
  IF req.enc \notin {"", "identity", "deflate", "lz4"} THEN [status |-> 400, dispatch |-> 0]
  ELSE LET d == Decompressed(req.enc, req.body) IN
       IF d = "fail" THEN [status |-> 400, dispatch |-> 0]
       ELSE IF d \in {"proto", "empty"} THEN [status |-> 202, dispatch |-> 1]
       ELSE [status |-> 0, dispatch |-> 0]       \* 0 = not predicted

VARIABLE reqs
Init == reqs = <<>>
Next == Len(reqs) < MaxReqs /\ \E ep \in Endpoints, enc \in Encodings, b \in Bodies : reqs' = Append(reqs, [ep |-> ep, enc |-> enc, body |-> b])
Spec == Init /\ [][Next]_reqs

IAgreesWithP == \A i \in 1..Len(reqs) :
  LET o == Outcome(reqs[i]) h == Handle(reqs[i]) IN
    /\ (o = "accept" => h.status = 202 /\ h.dispatch = 1)
    /\ (o = "reject" => h.status >= 400 /\ h.dispatch = 0)
    /\ (h.status = 202 <=> h.dispatch = 1)
Emit == reqs = <<>> \/ PrintT(<<"CASE", ToJson([reqs |-> reqs, exp |-> [i \in 1..Len(reqs) |-> Outcome(reqs[i])]])>>)
=============================================================================
