----------------------------- MODULE EnrichTrace -----------------------------
EXTENDS EnrichProp, TLC, TLCExt, Json, IOUtils
Log == ndJsonDeserialize(IOEnv.VERIF_TRACE)
VARIABLE l
tvars == <<info, left, outstanding, requested, bad, l>>
SetOf(s) == {s[i] : i \in 1..Len(s)}
TInit == TLCSet(1, 0) /\ PInit /\ l = 1
Ev(e) == l <= Len(Log) /\ Log[l].ev = e /\ l' = l + 1
TEnter   == Ev("enter") /\ PEnter(SetOf(Log[l].ids), Log[l].src, Log[l].kind, Log[l].hit)
TLookup  == Ev("lookupreq") /\ PLookupReq(Log[l].src)
TAnswer  == Ev("answer") /\ PAnswer(Log[l].src, Log[l].res)
TLeave   == Ev("leave") /\ PLeave(SetOf(Log[l].ids), Log[l].tagged)
TGauge   == Ev("gauge") /\ PGauge(Log[l].mh, Log[l].eh, Log[l].ei)
TSettle  == Ev("settle") /\ PSettle
TQuiesce == Ev("quiesce") /\ PQuiesce
TReset   == Ev("reset") /\ info' = <<>> /\ left' = {} /\ outstanding' = {} /\ requested' = {} /\ bad' = bad
TSkip    == l <= Len(Log) /\ Log[l].ev \notin {"enter", "lookupreq", "answer", "leave", "gauge", "settle", "quiesce", "reset"}
            /\ l' = l + 1 /\ UNCHANGED pvars
TNext == TEnter \/ TLookup \/ TAnswer \/ TLeave \/ TGauge \/ TSettle \/ TQuiesce \/ TReset \/ TSkip
TSpec == TInit /\ [][TNext]_tvars
HighWater == TLCSet(1, IF l > TLCGet(1) THEN l ELSE TLCGet(1))
Accepted == TLCGet(1) = Len(Log) + 1
=============================================================================
