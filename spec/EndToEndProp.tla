----------------------------- MODULE EndToEndProp -----------------------------
(* P-level monitor for the two-server topology (forwarder -> aggregating server), beyond the listed properties; it composes what C15,
   C14 and C01 say about the two halves into one statement about a datapoint's way from the forwarder's handler to the far backend:

     the number of times a datapoint accepted by the forwarder is reported by the aggregating server's flushes equals the number of
     times the request body carrying it was ingested there; that number is at least one unless the forwarder counted the body as
     dropped, and at most one when no response was lost on the way back (at-least-once delivery, exactly-once without response loss);
     nothing is reported that was not accepted.

     PStart                 fresh topology
     PAccept(d)             the forwarder's DispatchMetricMap returned for datapoint d (a counter increment of 1 on its own series)
     PBody(b, ds)           the forwarder sends body b for the first time; ds = the datapoints it carries
     PIngest(b)             the aggregating server's ingestion endpoint has accepted body b (once per accepted request)
     PLost(b)               the response to an accepted request for b did not reach the forwarder
     PDropped(b)            the forwarder gave b up (counted as dropped)
     PReport(d, n)          a flush of the aggregating server's backend reports n for d's series
     PQuiesce               both servers are idle: nothing queued, in flight or in back-off; the aggregating server has flushed *)
EXTENDS Naturals, FiniteSets
VARIABLES acc, carrier, ingests, lost, dropped, reported, bad
evars == <<acc, carrier, ingests, lost, dropped, reported, bad>>
EInit == acc = {} /\ carrier = <<>> /\ ingests = <<>> /\ lost = {} /\ dropped = {} /\ reported = <<>> /\ bad = ""
Latch(v) == bad' = IF bad # "" THEN bad ELSE v
Get(f, k) == IF k \in DOMAIN f THEN f[k] ELSE 0
Put(f, k, v) == [x \in DOMAIN f \cup {k} |-> IF x = k THEN v ELSE f[x]]
PStart == acc' = {} /\ carrier' = <<>> /\ ingests' = <<>> /\ lost' = {} /\ dropped' = {} /\ reported' = <<>> /\ UNCHANGED bad
PAccept(d) == acc' = acc \cup {d} /\ UNCHANGED <<carrier, ingests, lost, dropped, reported, bad>>
PBody(b, ds) ==
  /\ Latch(IF \E d \in ds : d \in DOMAIN carrier THEN "OneBody(a datapoint travels in two request bodies)"
           ELSE IF ~(ds \subseteq acc) THEN "NoPhantom(a body carries a datapoint nobody sent)" ELSE "")
  /\ carrier' = [x \in DOMAIN carrier \cup ds |-> IF x \in ds THEN b ELSE carrier[x]]
  /\ UNCHANGED <<acc, ingests, lost, dropped, reported>>
PIngest(b) == ingests' = Put(ingests, b, Get(ingests, b) + 1) /\ UNCHANGED <<acc, carrier, lost, dropped, reported, bad>>
PLost(b) == lost' = lost \cup {b} /\ UNCHANGED <<acc, carrier, ingests, dropped, reported, bad>>
PDropped(b) == dropped' = dropped \cup {b} /\ UNCHANGED <<acc, carrier, ingests, lost, reported, bad>>
PReport(d, n) ==
  /\ Latch(IF d \notin acc THEN "NoPhantom(a series is reported that nobody sent)" ELSE "")
  /\ reported' = Put(reported, d, Get(reported, d) + n) /\ UNCHANGED <<acc, carrier, ingests, lost, dropped>>
PQuiesce ==
  /\ Latch(IF \E d \in acc : d \notin DOMAIN carrier THEN "Carried(an accepted datapoint never left the forwarder)"
           ELSE IF \E d \in acc : Get(reported, d) # Get(ingests, carrier[d])
                THEN "CountsMatch(a datapoint is reported more or less often than its body was ingested)"
           ELSE IF \E d \in acc : Get(ingests, carrier[d]) = 0 /\ carrier[d] \notin dropped
                THEN "DeliveredOrDropped(a body was neither ingested nor counted as dropped)"
           ELSE IF \E d \in acc : Get(ingests, carrier[d]) > 1 /\ carrier[d] \notin lost
                THEN "ExactlyOnceWithoutLoss(a body was ingested twice although every response arrived)"
           ELSE "")
  /\ UNCHANGED <<acc, carrier, ingests, lost, dropped, reported>>
PropertyHolds == bad = ""
=============================================================================
