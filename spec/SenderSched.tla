------------------------------ MODULE SenderSched ------------------------------
(* R2 for C16 (socket side): stimulus schedules for the real sender.Sender (and, through it, the graphite and statsdaemon clients).
     send b      a flush request with b buffers is queued (own cancellable context)
     send100     ninety-nine single-buffer requests: with one earlier request they use up the code's 100 streams per connection
                 (Sender.tla uses MaxPerConn = 2)
     dial o      the next dial succeeds / fails           wfail     the next write fails
     adv         one second passes (the reconnect timer)  cancel k  the context of the k-th request so far is cancelled
   Epilogue by the driver: dials succeed, two seconds pass, then the backend's Run context is cancelled; PFinal.
   Core: the two schedules TLC found on Sender.tla with ClearStale = FALSE (stale streamCancel; stale sink). *)
EXTENDS Naturals, Sequences, TLC, Json
CONSTANTS MaxLen
VARIABLE sched
O(op, n) == [op |-> op, n |-> n]
Ops == {O("send", b) : b \in {0, 1, 3}} \cup {O("send100", 0), O("dialok", 0), O("dialfail", 0), O("wfail", 0), O("adv", 0)} \cup {O("cancel", k) : k \in 1..3}
\* dial outcomes queued before the first other stimulus also decide the very first dial (Run starts with the first other stimulus)
Core == {
  \* a stream arrives while disconnected and is answered after the reconnect; 99 more use up the connection; the reconnect fails;
  \* then the FIRST stream's context is cancelled (the flusher stage stops before the backend stage)
  <<O("dialfail", 0), O("dialok", 0), O("dialfail", 0), O("send", 1), O("adv", 0), O("send100", 0), O("cancel", 1), O("adv", 0)>>,
  \* a failure period without a stream arms `sink`; later a held stream (write failed, reconnect fails) is overwritten by the next one
  <<O("dialfail", 0), O("dialok", 0), O("dialfail", 0), O("adv", 0), O("wfail", 0), O("send", 1), O("send", 1), O("adv", 0), O("adv", 0)>>,
  <<O("send", 3), O("wfail", 0), O("send", 1), O("dialfail", 0), O("cancel", 1), O("adv", 0), O("send", 0), O("adv", 0)>>
}
ASSUME \A c \in Core : PrintT(<<"CASE", ToJson([sched |-> c])>>)
Init == sched = <<>>
Next == Len(sched) < MaxLen /\ \E o \in Ops : sched' = Append(sched, o)
Spec == Init /\ [][Next]_sched
Emit == Len(sched) < MaxLen \/ PrintT(<<"CASE", ToJson([sched |-> sched])>>)
=============================================================================
