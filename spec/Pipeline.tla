------------------------------- MODULE Pipeline -------------------------------
(* I-level for C01: the standalone pipeline as goroutines and channels
     client -> [parser input channel] -> DatagramParser x NP -> BackendHandler.DispatchMetricMap (Split, then one enqueue per
     non-empty split, in shard order, blocking on a full queue) -> per-shard queue (capacity Q; 0 = rendezvous) ->
     worker x W (select {queue, processChan}) -> MetricAggregator;  MetricFlusher: tick -> BackendHandler.Process hands one
     command to every worker in shard order over an unbuffered channel -> each worker runs Flush; Process; Reset as one
     step of its own goroutine -> flusher waits for all workers, then for all backend callbacks.
   (pkg/statsd parser.go, handler_backend.go, worker.go, flusher.go, aggregator.go)

   A datapoint is an id with a series key; an aggregate is the set of ids merged since the last Reset (counters, timers
   and sets all behave like that for conservation; gauges are not part of C01).
   Composed with the P-level monitor ConservationProp: ParserTake calls POffer, WorkerFlush calls PReport.
   Gates (merge[s], post[s]) are the driver's hold points at the Aggregator seam: while merge[s] is closed worker s sits
   inside ReceiveMap before merging; they are opened and closed by environment actions and let TLC-chosen schedules be
   forced on the real code. *)
EXTENDS Naturals, FiniteSets, Sequences, TLC

CONSTANTS NP, W, Q,
          Batches,          \* sequence of batches; a batch is a set of datapoint ids
          KeyOf,            \* id -> series key
          BucketOf,         \* series key -> shard in 0..W-1
          MaxTicks, UseGates,
          SplitReset        \* FALSE = the code; TRUE = a deliberately broken design (Reset as a second round of commands) used to
                            \* show that the invariants are not vacuous

VARIABLES next,             \* index of the next batch to be offered
          parser,           \* p -> [st |-> "idle"] | [st |-> "busy", splits |-> [shard -> set of ids], at |-> next shard]
          queue, worker, aggr, held,
          flusher,          \* [pc |-> "idle" | "handing" | "waiting", at |-> next shard, done |-> set of shards]
          ticks, flushNo, mergeGate, needReset,
          inflight, done, known, seen, owner, bad, cnt, nrep      \* the monitor
Prop == INSTANCE ConservationProp
ivars == <<next, parser, queue, worker, aggr, held, flusher, ticks, flushNo, mergeGate, needReset>>
vars == <<ivars, inflight, done, known, seen, owner, bad, cnt, nrep>>

Shards == 0..(W - 1)
SplitOf(b) == [s \in Shards |-> {i \in b : BucketOf[KeyOf[i]] = s}]
NextNonEmpty(splits, from) == IF \E s \in Shards : s >= from /\ splits[s] # {}
                              THEN CHOOSE s \in Shards : s >= from /\ splits[s] # {} /\ \A r \in Shards : (r >= from /\ splits[r] # {}) => s <= r
                              ELSE W

Init == /\ next = 1 /\ parser = [p \in 1..NP |-> [st |-> "idle", splits |-> <<>>, at |-> 0]]
        /\ queue = [s \in Shards |-> <<>>] /\ worker = [s \in Shards |-> "select"] /\ aggr = [s \in Shards |-> {}]
        /\ held = [s \in Shards |-> {}]
        /\ flusher = [pc |-> "idle", at |-> 0, done |-> {}] /\ ticks = 0 /\ flushNo = 0
        /\ mergeGate = [s \in Shards |-> FALSE] /\ needReset = {}
        /\ Prop!PInit

MonUnch == UNCHANGED <<inflight, done, known, seen, owner, bad, cnt, nrep>>

\* client send and parser receive on the (rendezvous) input channel, then parsing and Split
ParserTake(p) ==
  /\ next <= Len(Batches) /\ parser[p].st = "idle"
  /\ LET b == Batches[next] sp == SplitOf(b) IN
       /\ parser' = [parser EXCEPT ![p] = IF NextNonEmpty(sp, 0) = W THEN [st |-> "idle", splits |-> <<>>, at |-> 0]
                                          ELSE [st |-> "busy", splits |-> sp, at |-> NextNonEmpty(sp, 0)]]
       /\ Prop!POffer({[id |-> i, k |-> KeyOf[i]] : i \in b}, {})
  /\ next' = next + 1
  /\ UNCHANGED <<queue, worker, aggr, held, flusher, ticks, flushNo, mergeGate, needReset>>

Advance(p, s) == LET n == NextNonEmpty(parser[p].splits, s + 1) IN
                 [parser EXCEPT ![p] = IF n = W THEN [st |-> "idle", splits |-> <<>>, at |-> 0] ELSE [@ EXCEPT !.at = n]]
\* w.metricMapQueue <- mmSplit : buffered queue with room, or (Q = 0) rendezvous with a worker sitting at its select
ParserEnqueue(p) ==
  /\ parser[p].st = "busy"
  /\ LET s == parser[p].at IN
       /\ IF Q > 0 THEN /\ Len(queue[s]) < Q
                        /\ queue' = [queue EXCEPT ![s] = Append(@, parser[p].splits[s])]
                        /\ UNCHANGED <<worker, held>>
                   ELSE /\ worker[s] = "select"
                        /\ worker' = [worker EXCEPT ![s] = "merging"]
                        /\ held' = [held EXCEPT ![s] = parser[p].splits[s]]
                        /\ UNCHANGED queue
       /\ parser' = Advance(p, s)
  /\ UNCHANGED <<next, aggr, flusher, ticks, flushNo, mergeGate, needReset>> /\ MonUnch

\* case mm := <-w.metricMapQueue
WorkerTake(s) ==
  /\ Q > 0 /\ worker[s] = "select" /\ queue[s] # <<>>
  /\ worker' = [worker EXCEPT ![s] = "merging"] /\ held' = [held EXCEPT ![s] = Head(queue[s])]
  /\ queue' = [queue EXCEPT ![s] = Tail(@)]
  /\ UNCHANGED <<next, parser, aggr, flusher, ticks, flushNo, mergeGate, needReset>> /\ MonUnch
\* w.aggr.ReceiveMap(mm)  (the driver can hold the worker here: mergeGate)
WorkerMerge(s) ==
  /\ worker[s] = "merging" /\ ~mergeGate[s]
  /\ aggr' = [aggr EXCEPT ![s] = @ \cup held[s]] /\ held' = [held EXCEPT ![s] = {}]
  /\ worker' = [worker EXCEPT ![s] = "select"]
  /\ UNCHANGED <<next, parser, queue, flusher, ticks, flushNo, mergeGate, needReset>> /\ MonUnch

Tick == /\ flusher.pc = "idle" /\ ticks < MaxTicks
        /\ flusher' = [pc |-> "handing", at |-> 0, done |-> {}] /\ ticks' = ticks + 1 /\ flushNo' = flushNo + 1
        /\ UNCHANGED <<next, parser, queue, worker, aggr, held, mergeGate, needReset>> /\ MonUnch
\* worker.processChan <- cmd  (unbuffered: needs the worker at its select)
FlusherHand ==
  /\ flusher.pc = "handing" /\ worker[flusher.at] = "select"
  /\ worker' = [worker EXCEPT ![flusher.at] = "cmd"]
  /\ flusher' = IF flusher.at = W - 1 THEN [flusher EXCEPT !.pc = "waiting"] ELSE [flusher EXCEPT !.at = @ + 1]
  /\ UNCHANGED <<next, parser, queue, aggr, held, ticks, flushNo, mergeGate, needReset>> /\ MonUnch
\* executeProcess: aggr.Flush; aggr.Process (-> Backend.SendMetricsAsync); aggr.Reset -- one step of the worker goroutine
SeriesOf(ids) == {KeyOf[i] : i \in ids}
WorkerFlush(s) ==
  /\ worker[s] = "cmd"
  /\ Prop!PReport(flushNo, s, SeriesOf(aggr[s]), aggr[s])
  /\ IF SplitReset THEN aggr' = aggr /\ needReset' = needReset \cup {s}
                   ELSE aggr' = [aggr EXCEPT ![s] = {}] /\ needReset' = needReset
  /\ worker' = [worker EXCEPT ![s] = "select"]
  /\ flusher' = [flusher EXCEPT !.done = @ \cup {s}]
  /\ UNCHANGED <<next, parser, queue, held, ticks, flushNo, mergeGate>>
\* only in the broken design: the reset arrives as a later command
WorkerResetLater(s) ==
  /\ SplitReset /\ s \in needReset /\ worker[s] = "select"
  /\ aggr' = [aggr EXCEPT ![s] = {}] /\ needReset' = needReset \ {s}
  /\ UNCHANGED <<next, parser, queue, worker, held, flusher, ticks, flushNo, mergeGate>> /\ MonUnch
FlusherDone ==
  /\ flusher.pc = "waiting" /\ flusher.done = Shards
  /\ flusher' = [pc |-> "idle", at |-> 0, done |-> {}]
  /\ UNCHANGED <<next, parser, queue, worker, aggr, held, ticks, flushNo, mergeGate, needReset>> /\ MonUnch
Gate(s) == /\ UseGates /\ mergeGate' = [mergeGate EXCEPT ![s] = ~@]
           /\ UNCHANGED <<next, parser, queue, worker, aggr, held, flusher, ticks, flushNo, needReset>> /\ MonUnch

Next == \/ \E p \in 1..NP : ParserTake(p) \/ ParserEnqueue(p)
        \/ \E s \in Shards : WorkerTake(s) \/ WorkerMerge(s) \/ WorkerFlush(s) \/ WorkerResetLater(s) \/ Gate(s)
        \/ Tick \/ FlusherHand \/ FlusherDone
Spec == Init /\ [][Next]_vars

\* ---------------------------------------------------------------- what the mechanism guarantees
InParsers == UNION {UNION {parser[p].splits[s] : s \in {x \in Shards : parser[p].st = "busy" /\ x >= parser[p].at}} : p \in 1..NP}
InQueues  == UNION {UNION {queue[s][i] : i \in 1..Len(queue[s])} : s \in Shards}
InWorkers == UNION {held[s] \cup aggr[s] : s \in Shards}
\* conservation as an inductive invariant: every offered, unreported datapoint is in exactly one place
Conservation == inflight = InParsers \cup InQueues \cup InWorkers
MonitorQuiet == bad = ""
RouteStable == \A s \in Shards : \A i \in aggr[s] \cup held[s] : BucketOf[KeyOf[i]] = s
\* once everything has drained and a flush has passed, nothing is left (the quiescence clause)
Drained == next > Len(Batches) /\ InParsers = {} /\ InQueues = {} /\ \A s \in Shards : held[s] = {}
QuiesceClause == (Drained /\ flusher.pc = "idle" /\ \A s \in Shards : aggr[s] = {}) => inflight = {}
=============================================================================
