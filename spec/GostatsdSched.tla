----------------------------- MODULE GostatsdSched -----------------------------
(* R2 for the two-server topology (Gostatsd.tla / EndToEndProp.tla): stimulus schedules.
     dp       a datagram with a fresh counter line reaches the forwarder
     tick     one second passes (the forwarder flushes every second, the aggregating server every three)
     net x    the next request of the forwarder meets: "ok" | "refuse" (503, the server never sees it) | "lose" (the server ingests it, the
              response is lost) | "slow" (answered after 2 s)
   cfg: retry window of the forwarder in ms (4000, or -1 = retries disabled), aggregator shards of the server, parsers *)
EXTENDS Naturals, Sequences, TLC, Json
CONSTANTS MaxLen
VARIABLES cfg, sched, chosen
Cfgs == [w : {4000, 0 - 1}, shards : {1, 3}, slots : {1, 2}]
O(op, x) == [op |-> op, x |-> x]
Ops == {O("dp", ""), O("tick", "")} \cup {O("net", x) : x \in {"ok", "refuse", "lose", "slow"}}
Init == cfg = [w |-> 4000, shards |-> 1, slots |-> 1] /\ sched = <<>> /\ chosen = FALSE
Next == IF ~chosen THEN \E c \in {RandomElement(Cfgs)} : cfg' = c /\ chosen' = TRUE /\ UNCHANGED sched
        ELSE Len(sched) < MaxLen /\ \E o \in {RandomElement(Ops)} : sched' = Append(sched, o) /\ UNCHANGED <<cfg, chosen>>
Spec == Init /\ [][Next]_<<cfg, sched, chosen>>
C(w, s, k) == [w |-> w, shards |-> s, slots |-> k]
Core == {
  [cfg |-> C(4000, 1, 1), sched |-> <<O("dp", ""), O("dp", ""), O("tick", ""), O("tick", ""), O("tick", ""), O("dp", ""), O("tick", "")>>],
  [cfg |-> C(4000, 3, 2), sched |-> <<O("net", "lose"), O("dp", ""), O("tick", ""), O("dp", ""), O("tick", ""), O("tick", ""), O("tick", "")>>],
  [cfg |-> C(4000, 1, 2), sched |-> <<O("net", "refuse"), O("net", "refuse"), O("dp", ""), O("dp", ""), O("tick", ""), O("tick", ""), O("dp", ""), O("tick", "")>>],
  [cfg |-> C(0 - 1, 3, 1), sched |-> <<O("net", "refuse"), O("dp", ""), O("tick", ""), O("dp", ""), O("tick", ""), O("tick", "")>>],
  [cfg |-> C(0 - 1, 1, 1), sched |-> <<O("net", "lose"), O("dp", ""), O("tick", ""), O("tick", ""), O("tick", "")>>],
  [cfg |-> C(4000, 3, 1), sched |-> <<O("net", "slow"), O("net", "lose"), O("dp", ""), O("tick", ""), O("dp", ""), O("tick", ""), O("dp", ""), O("tick", ""), O("tick", "")>>]
}
ASSUME \A c \in Core : PrintT(<<"CASE", ToJson(c)>>)
Emit == Len(sched) < MaxLen \/ PrintT(<<"CASE", ToJson([cfg |-> cfg, sched |-> sched])>>)
=============================================================================
