--------------------------- MODULE ChannelWatcher ---------------------------
(* pkg/stats/channel_stats_watcher.go: the gauges channel.samples / avg / min / max / last / capacity that a server reports about each of its
   internal queues (X04, beyond the listed properties).  P-level reading of the doc comment "metrics are sampled every sampleInterval, and
   written every flush": what is written at a flush describes exactly the samples taken since the previous write -- their number, sum
   (avg = sum / number), minimum, maximum and the latest one -- and there is always at least one (no division by zero).
   The watcher samples once when it starts, at every tick, and once right after every write.
     set v   the queue's length becomes v (no sample is taken)
     tick    the sample interval elapses: one sample
     flush   the statser notifies: one write with the expectation carried in the history entry, then one sample *)
EXTENDS Naturals, Sequences, FiniteSets, TLC, Json

CONSTANTS Cap, MaxLen

VARIABLES cur,      \* the queue's length now
          samples,  \* samples taken since the last write
          hist

vars == <<cur, samples, hist>>

RECURSIVE SumSeq(_)
SumSeq(s) == IF s = <<>> THEN 0 ELSE Head(s) + SumSeq(Tail(s))
MinSeq(s) == CHOOSE m \in {s[i] : i \in DOMAIN s} : \A i \in DOMAIN s : m <= s[i]
MaxSeq(s) == CHOOSE m \in {s[i] : i \in DOMAIN s} : \A i \in DOMAIN s : m >= s[i]

Init == \E v \in 0..Cap : cur = v /\ samples = <<v>> /\ hist = <<[op |-> "start", v |-> v, n |-> 0, sum |-> 0, mn |-> 0, mx |-> 0, last |-> 0]>>

Set(v) == /\ v # cur /\ cur' = v /\ UNCHANGED samples
          /\ hist' = Append(hist, [op |-> "set", v |-> v, n |-> 0, sum |-> 0, mn |-> 0, mx |-> 0, last |-> 0])
Tick   == /\ samples' = Append(samples, cur) /\ UNCHANGED cur
          /\ hist' = Append(hist, [op |-> "tick", v |-> cur, n |-> 0, sum |-> 0, mn |-> 0, mx |-> 0, last |-> 0])
Flush  == /\ samples' = <<cur>> /\ UNCHANGED cur
          /\ hist' = Append(hist, [op |-> "flush", v |-> cur, n |-> Len(samples), sum |-> SumSeq(samples), mn |-> MinSeq(samples),
                                   mx |-> MaxSeq(samples), last |-> samples[Len(samples)]])

Next == Len(hist) < MaxLen /\ (Tick \/ Flush \/ \E v \in 0..Cap : Set(v))
Spec == Init /\ [][Next]_vars

AlwaysASample == Len(samples) >= 1
Emit == Len(hist) < MaxLen \/ hist[Len(hist)].op # "flush" \/ PrintT(<<"CASE", ToJson([cap |-> Cap, hist |-> hist])>>)
=============================================================================
