--------------------------- MODULE AccountingTrace ---------------------------
(* R3 for X03: the run recorded by harness/shut (the same file ShutdownTrace reads) against the AccountingProp monitor. *)
EXTENDS AccountingProp, TLC, TLCExt, Json, IOUtils, Sequences
Log == ndJsonDeserialize(IOEnv.VERIF_TRACE)
VARIABLE l
tvars == <<avars, l>>
TInit == TLCSet(1, 0) /\ AInit /\ l = 1
Ev(e) == l <= Len(Log) /\ Log[l].ev = e /\ l' = l + 1
Known == {"start", "offered", "own", "settled"}
TNext == \/ Ev("start") /\ PStart(Log[l].backends, Log[l].cfg.mode)
         \/ Ev("offered") /\ POffer(Log[l].d, Log[l].m, Log[l].e, Log[l].bad)
         \/ Ev("own") /\ POwn(Log[l].b, Log[l].name, Log[l].kind, Log[l].v)
         \/ Ev("settled") /\ PSettled
         \/ l <= Len(Log) /\ Log[l].ev \notin Known /\ l' = l + 1 /\ UNCHANGED avars
TSpec == TInit /\ [][TNext]_tvars
HighWater == TLCSet(1, IF l > TLCGet(1) THEN l ELSE TLCGet(1))
Accepted == TLCGet(1) = Len(Log) + 1
=============================================================================
