---------------------------- MODULE ShutdownProp ----------------------------
(* P-level monitor for X02 (beyond the listed properties): what the outside can rely on when a gostatsd server is started and stopped,
   whatever the pipeline is doing at that moment -- provided the backends honour the contexts they are given and instance lookups get
   answered.  Driven by observed events.
     PStart(B, ev)        a server with B backends is started; ev = internal events are enabled
     PHold / PRelease     (environment) some backend stops / resumes answering; only remembered as "a backend was held in this run"
     PEvent(b, kind)      backend b is handed an event: kind = "started" | "stopped" (the server's own) | "client"
     PFlush(b)            backend b is handed a flush (SendMetricsAsync is called)
     PStop                the server's context is cancelled
     PReturned            Run returned
     PStuck               Run had not returned long after every backend call could have timed out
     PLeak                goroutines of the server remained blocked after Run returned and every backend call was let go
     PPanic               a goroutine of the server panicked
   Clauses:
     Returns        the server always returns after it is stopped (PStuck never happens)
     NoPanic / NoLeak
     OwnEventsOnce  each backend is handed "started" at most once and "stopped" at most once; "stopped" only after PStop
     OwnEventsAll   when Run returns, events are enabled and no backend was ever held: every backend has had both, "stopped" before the return
     NoOwnEvents    with internal events disabled neither is ever handed
     QuietAfterReturn  no flush is handed to a backend after Run returned (the flusher was waited for) *)
EXTENDS Naturals, FiniteSets

VARIABLES nb, evOn, held, started, stopped, stopping, returned, bad
pvars == <<nb, evOn, held, started, stopped, stopping, returned, bad>>
PInit == nb = 0 /\ evOn = FALSE /\ held = FALSE /\ started = {} /\ stopped = {} /\ stopping = FALSE /\ returned = FALSE /\ bad = ""
Latch(v) == bad' = IF bad # "" THEN bad ELSE v
PStart(B, ev) == nb' = B /\ evOn' = ev /\ held' = FALSE /\ started' = {} /\ stopped' = {} /\ stopping' = FALSE /\ returned' = FALSE /\ UNCHANGED bad
PHold == held' = TRUE /\ UNCHANGED <<nb, evOn, started, stopped, stopping, returned, bad>>
PEvent(b, kind) ==
  /\ Latch(IF kind = "client" THEN ""
           ELSE IF ~evOn THEN "NoOwnEvents(internal events are disabled)"
           ELSE IF kind = "started" /\ b \in started THEN "OwnEventsOnce(started handed twice)"
           ELSE IF kind = "stopped" /\ b \in stopped THEN "OwnEventsOnce(stopped handed twice)"
           ELSE IF kind = "stopped" /\ ~stopping THEN "OwnEventsOnce(stopped handed although the server was not asked to stop)"
           ELSE "")
  /\ started' = IF kind = "started" THEN started \cup {b} ELSE started
  /\ stopped' = IF kind = "stopped" THEN stopped \cup {b} ELSE stopped
  /\ UNCHANGED <<nb, evOn, held, stopping, returned>>
PFlush(b) == Latch(IF returned THEN "QuietAfterReturn(a flush was handed to a backend after Run returned)" ELSE "")
             /\ UNCHANGED <<nb, evOn, held, started, stopped, stopping, returned>>
PStop == stopping' = TRUE /\ UNCHANGED <<nb, evOn, held, started, stopped, returned, bad>>
PReturned ==
  /\ Latch(IF ~stopping THEN "Returns(Run returned although nobody stopped it)"
           ELSE IF evOn /\ ~held /\ started # 1..nb THEN "OwnEventsAll(a backend never got the started event)"
           ELSE IF evOn /\ ~held /\ stopped # 1..nb THEN "OwnEventsAll(a backend did not get the stopped event before Run returned)"
           ELSE "")
  /\ returned' = TRUE /\ UNCHANGED <<nb, evOn, held, started, stopped, stopping>>
PStuck == Latch("Returns(Run did not return)") /\ UNCHANGED <<nb, evOn, held, started, stopped, stopping, returned>>
PLeak  == Latch("NoLeak(goroutines stayed blocked after Run returned)") /\ UNCHANGED <<nb, evOn, held, started, stopped, stopping, returned>>
PPanic == Latch("NoPanic") /\ UNCHANGED <<nb, evOn, held, started, stopped, stopping, returned>>
PropertyHolds == bad = ""
=============================================================================
