---------------------------- MODULE AlignedTicker ----------------------------
(* I-level for C18: internal/util/aligned_ticker.go on the tilinna mock clock, and the flusher's lastFlush arithmetic
   (pkg/statsd/flusher.go), over integer time.
     goroutine `start`:  G0 read the clock, arm a timer for roundup(now - o, i) + o;  G1 phase 1: on the timer value arm a
                         ticker of period i AT THE CURRENT CLOCK READING and sendTick(value);  G2 phase 2: sendTick per ticker value
     sendTick(t):        rounded = truncate(t - o, i) + o;  non-blocking send into a channel of capacity 1
     mock clock Add(d):  fires the timer at its deadline; fires a ticker ONCE with its deadline and re-arms it to the first
                         multiple of its period after the new now (mock.go set())
     consumer:           takes a tick; the flusher computes delta = tick - lastFlush
   Composed with the AlignedProp monitor: ConsumerTake calls PFlush(v, delta, TRUE, now). *)
EXTENDS Integers, Sequences, TLC

CONSTANTS I, O, S, MaxAdvances, MaxStep, RoundUp, TowardZero
\* deliberately wrong variants (vacuity): RoundUp = TRUE: sendTick rounds up;  TowardZero = TRUE: boundaries computed with a remainder that takes
\* the sign of the dividend (Go's %), which rounds towards zero when start - offset lies before the reference instant (round-3 m2)

VARIABLES now, gpc, tmrDeadline, tmrC, tkrDeadline, tkrC, outC, lastFlush, advances,
          cfg, last, nflush, ready, bad
Prop == INSTANCE AlignedProp
ivars == <<now, gpc, tmrDeadline, tmrC, tkrDeadline, tkrC, outC, lastFlush, advances>>
vars == <<ivars, cfg, last, nflush, ready, bad>>
MonUnch == UNCHANGED <<cfg, last, nflush, ready, bad>>

Trunc(t, i) == IF TowardZero /\ t < 0 THEN 0 - ((0 - t) - ((0 - t) % i)) ELSE t - (t % i)
Rounded(t) == IF RoundUp THEN Trunc(t - O + I - 1, I) + O ELSE Trunc(t - O, I) + O

Init == /\ now = S /\ gpc = "G0" /\ tmrDeadline = -1 /\ tmrC = -1 /\ tkrDeadline = -1 /\ tkrC = -1 /\ outC = -1
        /\ lastFlush = S /\ advances = 0
        /\ cfg = [s |-> S, i |-> I, o |-> O] /\ last = -1 /\ nflush = 0 /\ ready = TRUE /\ bad = ""

\* start-up is the instant the ticker reads the clock (the statement's "start-up"; the goroutine may be scheduled late)
GStart == /\ gpc = "G0" /\ gpc' = "G1"
          /\ tmrDeadline' = Trunc(now - O, I) + I + O          \* now + initialWait
          /\ Prop!PStart(now, I, O)
          /\ UNCHANGED <<now, tmrC, tkrDeadline, tkrC, outC, lastFlush, advances>>
SendTick(v) == outC' = IF outC = -1 THEN Rounded(v) ELSE outC     \* default branch: dropped when the consumer is behind
GPhase1 == /\ gpc = "G1" /\ tmrC # -1
           /\ tkrDeadline' = now + I /\ SendTick(tmrC) /\ tmrC' = -1 /\ gpc' = "G2"
           /\ UNCHANGED <<now, tmrDeadline, tkrC, lastFlush, advances>> /\ MonUnch
GPhase2 == /\ gpc = "G2" /\ tkrC # -1
           /\ SendTick(tkrC) /\ tkrC' = -1
           /\ UNCHANGED <<now, gpc, tmrDeadline, tmrC, tkrDeadline, lastFlush, advances>> /\ MonUnch

\* mock.Add(d): timers fire in deadline order with the clock set to the deadline
Advance(d) ==
  /\ advances < MaxAdvances /\ advances' = advances + 1
  /\ LET target == now + d
         tmrFires == tmrDeadline # -1 /\ tmrDeadline <= target
         tkrFires == tkrDeadline # -1 /\ tkrDeadline <= target
     IN /\ now' = target
        /\ tmrC' = IF tmrFires THEN tmrDeadline ELSE tmrC
        /\ tmrDeadline' = IF tmrFires THEN -1 ELSE tmrDeadline
        /\ tkrC' = IF tkrFires /\ tkrC = -1 THEN tkrDeadline ELSE tkrC        \* time.Ticker drops when its channel is full
        /\ tkrDeadline' = IF tkrFires THEN tkrDeadline + (((target - tkrDeadline) \div I) + 1) * I ELSE tkrDeadline
  /\ UNCHANGED <<gpc, outC, lastFlush>> /\ MonUnch

ConsumerTake == /\ outC # -1
                /\ Prop!PFlush(outC, outC - lastFlush, TRUE, now)
                /\ lastFlush' = outC /\ outC' = -1
                /\ UNCHANGED <<now, gpc, tmrDeadline, tmrC, tkrDeadline, tkrC, advances>>

Next == GStart \/ GPhase1 \/ GPhase2 \/ ConsumerTake \/ \E d \in 1..MaxStep : Advance(d)
Spec == Init /\ [][Next]_vars
MonitorQuiet == bad = ""
\* a tick waiting in the channel is always aligned and newer than the last one consumed
PendingAligned == outC = -1 \/ ((outC - O) % I = 0 /\ outC > last)
=============================================================================
