----------------------------- MODULE CloudHandler -----------------------------
(* I-level for C11 / C19: pkg/statsd/handler_cloud.go. One action per select arm of CloudHandler.Run and per entry point:
     ArriveM / ArriveE   DispatchMetricMap / DispatchEvent: fast path on a cache hit (or empty source), otherwise the
                         rendezvous into Run and handleIncomingMetrics / handleIncomingEvent (parking, toLookupIPs, gauges)
     PickLookup          the tail of the loop: pop the LAST element of toLookupIPs when no send is armed
     SendLookup          case toLookupC <- toLookupIP   (the environment's ServiceTakes)
     Info(src, res)      case info := <-infoSource: handleInstanceInfo (delete queues, decrement gauges, spawn dispatch goroutines)
     InfoErr(src)        the same for a failed lookup of a source the cache still serves an instance for
     Deliver             a spawned goroutine hands its items to the next handler
     Emit                case statser := <-ch.emitChan
   Gauges are integers so that the uint64 underflow of the code is visible as a negative number.
   CountPerQueue = FALSE is the code before the fix (a host is counted for metrics / events only when that arrival requested
   the lookup, but decremented whenever its queue is released); TRUE counts a host whenever its queue is created.
   Composed with the P-level monitor EnrichProp. *)
EXTENDS Integers, FiniteSets, Sequences, TLC

CONSTANTS Sources, MaxArrivals, CountPerQueue,
          PeekAtRelease   \* deviation (round-5 seeded change): a failed lookup's items are enriched with what the cache holds when they are released

VARIABLES cache,        \* src -> "pos" | "neg"  (absent = miss)
          awaitM, awaitE, toLookup, armed, spawned,
          gMH, gEH, gEI, arrivals,
          info, left, outstanding, requested, bad
Prop == INSTANCE EnrichProp
ivars == <<cache, awaitM, awaitE, toLookup, armed, spawned, gMH, gEH, gEI, arrivals>>
vars == <<ivars, info, left, outstanding, requested, bad>>
MonUnch == UNCHANGED <<info, left, outstanding, requested, bad>>

Init == /\ cache = <<>> /\ awaitM = <<>> /\ awaitE = <<>> /\ toLookup = <<>> /\ armed = "" /\ spawned = {}
        /\ gMH = 0 /\ gEH = 0 /\ gEI = 0 /\ arrivals = 0
        /\ Prop!PInit

Hit(src) == IF src = "" THEN "empty" ELSE IF src \in DOMAIN cache THEN cache[src] ELSE "miss"
Id == arrivals + 1
Has(f, k) == k \in DOMAIN f
Put(f, k, v) == [x \in DOMAIN f \cup {k} |-> IF x = k THEN v ELSE f[x]]
Del(f, k) == [x \in DOMAIN f \ {k} |-> f[x]]

ArriveM(src) ==
  /\ arrivals < MaxArrivals /\ arrivals' = arrivals + 1
  /\ Prop!PEnter({Id}, src, "m", Hit(src))
  /\ IF Hit(src) # "miss"
     THEN /\ spawned' = spawned \cup {[ids |-> {Id}, tagged |-> IF Hit(src) = "pos" THEN "pos" ELSE "none"]}   \* dispatched by the caller
          /\ UNCHANGED <<awaitM, awaitE, toLookup, gMH, gEH, gEI>>
     ELSE /\ awaitM' = Put(awaitM, src, (IF Has(awaitM, src) THEN awaitM[src] ELSE {}) \cup {Id})
          /\ IF Has(awaitM, src) THEN UNCHANGED <<toLookup, gMH>>
             ELSE IF ~Has(awaitE, src) THEN toLookup' = Append(toLookup, src) /\ gMH' = gMH + 1
             ELSE toLookup' = toLookup /\ gMH' = IF CountPerQueue THEN gMH + 1 ELSE gMH
          /\ UNCHANGED <<awaitE, spawned, gEH, gEI>>
  /\ UNCHANGED <<cache, armed>>

ArriveE(src) ==
  /\ arrivals < MaxArrivals /\ arrivals' = arrivals + 1
  /\ Prop!PEnter({Id}, src, "e", Hit(src))
  /\ IF Hit(src) # "miss"
     THEN /\ spawned' = spawned \cup {[ids |-> {Id}, tagged |-> IF Hit(src) = "pos" THEN "pos" ELSE "none"]}
          /\ UNCHANGED <<awaitM, awaitE, toLookup, gMH, gEH, gEI>>
     ELSE /\ awaitE' = Put(awaitE, src, (IF Has(awaitE, src) THEN awaitE[src] ELSE {}) \cup {Id})
          /\ gEI' = gEI + 1
          /\ IF Has(awaitE, src) THEN UNCHANGED <<toLookup, gEH>>
             ELSE IF ~Has(awaitM, src) THEN toLookup' = Append(toLookup, src) /\ gEH' = gEH + 1
             ELSE toLookup' = toLookup /\ gEH' = IF CountPerQueue THEN gEH + 1 ELSE gEH
          /\ UNCHANGED <<awaitM, spawned, gMH>>
  /\ UNCHANGED <<cache, armed>>

PickLookup == /\ armed = "" /\ toLookup # <<>>
              /\ armed' = toLookup[Len(toLookup)] /\ toLookup' = SubSeq(toLookup, 1, Len(toLookup) - 1)
              /\ UNCHANGED <<cache, awaitM, awaitE, spawned, gMH, gEH, gEI, arrivals>> /\ MonUnch
SendLookup == /\ armed # "" /\ Prop!PLookupReq(armed) /\ armed' = ""
              /\ UNCHANGED <<cache, awaitM, awaitE, toLookup, spawned, gMH, gEH, gEI, arrivals>>

Info(src, res) ==
  /\ src \in outstanding                                    \* the lookup service answers what it was asked
  /\ Prop!PAnswer(src, res)
  /\ cache' = Put(cache, src, res)                          \* the service caches its answer before publishing it
  /\ awaitM' = IF Has(awaitM, src) THEN Del(awaitM, src) ELSE awaitM
  /\ awaitE' = IF Has(awaitE, src) THEN Del(awaitE, src) ELSE awaitE
  /\ gMH' = IF Has(awaitM, src) THEN gMH - 1 ELSE gMH
  /\ gEH' = IF Has(awaitE, src) THEN gEH - 1 ELSE gEH
  /\ gEI' = IF Has(awaitE, src) THEN gEI - Cardinality(awaitE[src]) ELSE gEI
  /\ spawned' = spawned \cup (IF Has(awaitM, src) THEN {[ids |-> awaitM[src], tagged |-> IF res = "pos" THEN "pos" ELSE "none"]} ELSE {})
                        \cup (IF Has(awaitE, src) THEN {[ids |-> awaitE[src], tagged |-> IF res = "pos" THEN "pos" ELSE "none"]} ELSE {})
  /\ UNCHANGED <<toLookup, armed, arrivals>>

\* the lookup fails while the cache keeps (or has meanwhile got) an older instance for the source: a provider that "never forgets good data
\* on error" (C12) answers nil and goes on serving what it had.  The items that waited leave unchanged.
InfoErr(src) ==
  /\ src \in outstanding
  /\ Prop!PAnswer(src, "neg")
  /\ cache' = Put(cache, src, "pos")
  /\ awaitM' = IF Has(awaitM, src) THEN Del(awaitM, src) ELSE awaitM
  /\ awaitE' = IF Has(awaitE, src) THEN Del(awaitE, src) ELSE awaitE
  /\ gMH' = IF Has(awaitM, src) THEN gMH - 1 ELSE gMH
  /\ gEH' = IF Has(awaitE, src) THEN gEH - 1 ELSE gEH
  /\ gEI' = IF Has(awaitE, src) THEN gEI - Cardinality(awaitE[src]) ELSE gEI
  /\ LET t == IF PeekAtRelease THEN "pos" ELSE "none" IN
     spawned' = spawned \cup (IF Has(awaitM, src) THEN {[ids |-> awaitM[src], tagged |-> t]} ELSE {})
                        \cup (IF Has(awaitE, src) THEN {[ids |-> awaitE[src], tagged |-> t]} ELSE {})
  /\ UNCHANGED <<toLookup, armed, arrivals>>

Deliver == \E g \in spawned : /\ Prop!PLeave(g.ids, g.tagged) /\ spawned' = spawned \ {g}
                              /\ UNCHANGED <<cache, awaitM, awaitE, toLookup, armed, gMH, gEH, gEI, arrivals>>
Emit == /\ Prop!PGauge(gMH, gEH, gEI)
        /\ UNCHANGED ivars

Next == \/ \E s \in Sources \cup {""} : ArriveM(s) \/ ArriveE(s)
        \/ PickLookup \/ SendLookup \/ Deliver \/ Emit
        \/ \E s \in Sources, r \in {"pos", "neg"} : Info(s, r)
        \/ \E s \in Sources : InfoErr(s)
Spec == Init /\ [][Next]_vars

MonitorQuiet == bad = ""
GaugesNonNegative == gMH >= 0 /\ gEH >= 0 /\ gEI >= 0
\* when nothing is in flight inside the stage, everything entered has left or is waiting for an answer
StageEmpty == spawned = {} => (DOMAIN info \ left) = UNION ({awaitM[s] : s \in DOMAIN awaitM} \cup {awaitE[s] : s \in DOMAIN awaitE})
=============================================================================
