------------------------------ MODULE ReceiverTrace ------------------------------
EXTENDS ReceiverProp, TLC, TLCExt, Json, IOUtils, Sequences
Log == ndJsonDeserialize(IOEnv.VERIF_TRACE)
VARIABLE l
tvars == <<rvars, l>>
TInit == TLCSet(1, 0) /\ RInit /\ l = 1
Ev(e) == l <= Len(Log) /\ Log[l].ev = e /\ l' = l + 1
Known == {"start", "sent", "parsed", "quiesce"}
TNext == \/ Ev("start") /\ PStart
         \/ Ev("sent") /\ PSent(Log[l].d)
         \/ Ev("parsed") /\ PParsed(Log[l].d, Log[l].ok)
         \/ Ev("quiesce") /\ PQuiesce(Log[l].live)
         \/ l <= Len(Log) /\ Log[l].ev \notin Known /\ l' = l + 1 /\ UNCHANGED rvars
TSpec == TInit /\ [][TNext]_tvars
HighWater == TLCSet(1, IF l > TLCGet(1) THEN l ELSE TLCGet(1))
Accepted == TLCGet(1) = Len(Log) + 1
=============================================================================
