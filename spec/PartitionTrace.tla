---------------------------- MODULE PartitionTrace ----------------------------
(* R3: validates a recorded NDJSON trace of Split / report events against PartitionProp. *)
EXTENDS PartitionProp, TLC, TLCExt, Json, IOUtils

Log == ndJsonDeserialize(IOEnv.VERIF_TRACE)
VARIABLE l
tvars == <<route, owner, seen, bad, l>>

ToSet(s) == {s[i] : i \in 1..Len(s)}
TInit == TLCSet(1, 0) /\ PInit /\ l = 1
Ev(e) == l <= Len(Log) /\ Log[l].ev = e /\ l' = l + 1
TSplit  == Ev("split") /\ PSplit(Log[l].n, ToSet(Log[l].keys), [i \in 1..Len(Log[l].shards) |-> ToSet(Log[l].shards[i])], Log[l].same)
TReport == Ev("report") /\ PReport(Log[l].flush, Log[l].who, ToSet(Log[l].keys))
TReset  == Ev("reset") /\ route' = <<>> /\ owner' = <<>> /\ seen' = <<>> /\ bad' = bad
TNext == TSplit \/ TReport \/ TReset
TSpec == TInit /\ [][TNext]_tvars

HighWater == TLCSet(1, IF l > TLCGet(1) THEN l ELSE TLCGet(1))
Accepted == TLCGet(1) = Len(Log) + 1
BadAt == bad = "" \/ PrintT(<<"BAD", bad, l - 1>>)
=============================================================================
