----------------------------- MODULE K8sProvider -----------------------------
(* C13: pkg/cachedinstances/k8s/k8s.go over sequential histories of pod add / update / delete interleaved with lookups.

   A pod version is [ip, phase, host, deleting, ver]; ver stands for the content of its labels and annotations.
   P-level  CurrentPod(ip) = the pod that is running (not Succeeded / Failed, no deletion timestamp), not on the host network,
            and holds ip now;  a lookup must answer its identity and the tags of its current version, or nothing.
   I-level  the informer index (podByIpIndexFunc over isIndexablePod), the memo cache (only non-nil answers are served from it),
            OnAdd (nothing), OnUpdate (invalidate by the OLD version, if it was indexable), OnDelete (same).
   Distinct IPs: at any instant at most one indexable pod holds an IP; finished pods may still carry an IP that a new pod reuses.
   Tag naming (getTagNameFromRegex) is given per key class in TagName. *)
EXTENDS Naturals, Sequences, FiniteSets, TLC, Json

CONSTANTS Names, IPs, MaxLen, MaxVer

NoPod == [ip |-> "", phase |-> "none", host |-> FALSE, deleting |-> FALSE, ver |-> 0]
V(ip, phase, host, deleting, ver) == [ip |-> ip, phase |-> phase, host |-> host, deleting |-> deleting, ver |-> ver]
\* the versions that matter: pending without an IP; running (each label version); running on the host network; running with a
\* deletion timestamp; finished but still carrying the IP
Versions == {V("", "Pending", FALSE, FALSE, 1)} \cup
            UNION {{V(ip, "Running", FALSE, FALSE, v) : v \in 1..MaxVer} \cup
                   {V(ip, "Running", TRUE, FALSE, 1), V(ip, "Running", FALSE, TRUE, 1), V(ip, "Succeeded", FALSE, FALSE, 1),
                    V(ip, "Failed", FALSE, FALSE, MaxVer), V(ip, "Pending", FALSE, FALSE, 1)} : ip \in IPs}
Indexable(p) == p.phase # "none" /\ p.ip # "" /\ p.phase \notin {"Succeeded", "Failed"} /\ ~p.deleting /\ ~p.host

VARIABLES pods, memo, hist
vars == <<pods, memo, hist>>

Holders(ps, ip) == {n \in Names : Indexable(ps[n]) /\ ps[n].ip = ip}
DistinctIPs(ps) == \A ip \in IPs : Cardinality(Holders(ps, ip)) <= 1
CurrentPod(ip) == IF Holders(pods, ip) = {} THEN [name |-> "", ver |-> 0]
                  ELSE LET n == CHOOSE x \in Holders(pods, ip) : TRUE IN [name |-> n, ver |-> pods[n].ver]

Init == pods = [n \in Names |-> NoPod] /\ memo = [ip \in IPs |-> [name |-> "", ver |-> 0]] /\ hist = <<>>

Invalidate(old) == IF Indexable(old) THEN [memo EXCEPT ![old.ip] = [name |-> "", ver |-> 0]] ELSE memo

Add(n, v) == /\ pods[n] = NoPod /\ DistinctIPs([pods EXCEPT ![n] = v])
             /\ pods' = [pods EXCEPT ![n] = v] /\ memo' = memo                           \* OnAdd does nothing
             /\ hist' = Append(hist, [op |-> "add", name |-> n, pod |-> v, ip |-> "", exp |-> [name |-> "", ver |-> 0]])
Update(n, v) == /\ pods[n] # NoPod /\ v # pods[n] /\ DistinctIPs([pods EXCEPT ![n] = v])
                /\ pods' = [pods EXCEPT ![n] = v] /\ memo' = Invalidate(pods[n])       \* by the old version
                /\ hist' = Append(hist, [op |-> "update", name |-> n, pod |-> v, ip |-> "", exp |-> [name |-> "", ver |-> 0]])
Delete(n) == /\ pods[n] # NoPod
             /\ pods' = [pods EXCEPT ![n] = NoPod] /\ memo' = Invalidate(pods[n])
             /\ hist' = Append(hist, [op |-> "delete", name |-> n, pod |-> pods[n], ip |-> "", exp |-> [name |-> "", ver |-> 0]])
\* instanceFromCache: a memoised non-nil answer is served, otherwise the index is consulted and the answer memoised
IAnswer(ip) == IF memo[ip].name # "" THEN memo[ip] ELSE CurrentPod(ip)
Lookup(ip, how) == /\ memo' = [memo EXCEPT ![ip] = IAnswer(ip)] /\ pods' = pods
                   /\ hist' = Append(hist, [op |-> how, name |-> "", pod |-> NoPod, ip |-> ip, exp |-> CurrentPod(ip)])

\* reasonable successor versions of a pod (phase transitions, IP assignment / change, label edits, deletion mark)
Next == /\ Len(hist) < MaxLen
        /\ \/ \E n \in Names, v \in Versions : Add(n, v) \/ Update(n, v)
           \/ \E n \in Names : Delete(n)
           \/ \E ip \in IPs, how \in {"peek", "ask"} : Lookup(ip, how)
Spec == Init /\ [][Next]_vars

\* the memo never holds anything but the current holder's current version (so every lookup answers CurrentPod)
NoStale == \A ip \in IPs : memo[ip].name = "" \/ memo[ip] = CurrentPod(ip)
AnswersCurrent == hist = <<>> \/ hist[Len(hist)].op \notin {"peek", "ask"} \/ memo[hist[Len(hist)].ip] = hist[Len(hist)].exp

\* ---------------------------------------------------------------- tag naming per key class (getTagNameFromRegex)
\* cls: "nomatch" | "group" (named group 'tag' matched non-empty text g) | "groupempty" | "nogroup"
TagName(cls, key, g) == CASE cls = "nomatch" -> "" [] cls = "group" -> g [] OTHER -> key

Emit == Len(hist) < MaxLen \/ hist[Len(hist)].op \notin {"peek", "ask"} \/ PrintT(<<"CASE", ToJson([hist |-> hist])>>)
=============================================================================
