------------------------------ MODULE BatchSched ------------------------------
(* R2 for C17: aggregate states x configurations for the backend payload driver.
   A case is [label, cfg, series]: the driver feeds the series through the real aggregator (one flush of one second) and hands the flushed
   map to every backend variant built with cfg.
     series  [k, n, t, h, v]   k kind: "c" counter | "g" gauge | "s" set | "ms" timer | "hist" timer with histogram buckets
                               n name index, t tag-set index, h host index, v value profile (see the pools; all within the alphabets the
                               statement gives: names [A-Za-z0-9_.-], tags and set members [A-Za-z0-9_.:/-])
     cfg     batch (0 = the backend's default), mask (disabled sub-metrics profile), pcts (percent thresholds profile), compress, histLimit
   Pools are spelled out here so that the driver needs no knowledge of its own. *)
EXTENDS Naturals, Sequences, FiniteSets, TLC, Json
CONSTANTS MaxSeries
VARIABLES cfg, series, chosen
Names == <<"a", "a.b", "c-d_e.count", "Z9.upper", "m_0.histogram">>
TagSets == << <<>>, <<"env:x">>, <<"k:pr/od-1.x_y", "solo">>, <<"a:b:c", "zone:eu-1", "ver:v1.2">>, <<"solo", "other">>,
             <<"zone:us-2", "env:x">>, <<"hostname:web-1", "hosted">> >>
Hosts == <<"h1", "", "10.0.0.7">>
\* value profiles per kind: counters (events as value@rate), gauges, set members, timer values
CounterVals == << <<"5">>, <<"1", "2", "3">>, <<"0">> >>
GaugeVals == <<"2.5", "-3", "0.000001", "123456.789">>
SetVals == << <<"m1">>, <<"m1", "m/2", "m:3">>, <<"a.b-c_d">> >>
TimerVals == << <<"10">>, <<"25", "5", "15">>, <<"0.5", "0.5", "60", "7">>, <<"-2", "3">> >>
Masks == << <<>>, <<"lower", "count-per-second", "stddev">>, <<"lower", "upper", "count", "count-per-second", "mean", "median", "stddev", "sum", "sum-squares">>,
            <<"count-pct", "mean-pct", "sum-pct", "sum-squares-pct", "upper-pct", "lower-pct">>, <<"upper", "sum-squares", "mean-pct">> >>
Pcts == << <<>>, <<"90">>, <<"90", "-90">>, <<"99.5">> >>
Batches == {0, 1, 2, 3, 5, 7, 21, 24}
\* reskeys: otlp.resource_keys = zone (series are grouped into one resource per zone value)
Cfgs == [batch : Batches, mask : 1..Len(Masks), pcts : 1..Len(Pcts), compress : BOOLEAN, histLimit : {1, 10}, reskeys : BOOLEAN]
S(k, n, t, h, v) == [k |-> k, n |-> n, t |-> t, h |-> h, v |-> v]
Pool == {S("c", n, t, h, v) : n \in 1..Len(Names), t \in 1..Len(TagSets), h \in 1..Len(Hosts), v \in 1..Len(CounterVals)} \cup
        {S("g", n, t, h, v) : n \in 1..Len(Names), t \in 1..Len(TagSets), h \in 1..Len(Hosts), v \in 1..Len(GaugeVals)} \cup
        {S("s", n, t, h, v) : n \in 1..Len(Names), t \in 1..Len(TagSets), h \in 1..Len(Hosts), v \in 1..Len(SetVals)} \cup
        {S(k, n, t, h, v) : k \in {"ms", "hist"}, n \in 1..Len(Names), t \in 1..Len(TagSets), h \in 1..Len(Hosts), v \in 1..Len(TimerVals)}
Init == cfg = [batch |-> 0, mask |-> 1, pcts |-> 1, compress |-> TRUE, histLimit |-> 10, reskeys |-> FALSE] /\ series = <<>> /\ chosen = FALSE
Next == IF ~chosen THEN \E c \in {RandomElement(Cfgs)} : cfg' = c /\ chosen' = TRUE /\ UNCHANGED series
        ELSE Len(series) < MaxSeries /\ \E s \in {RandomElement(Pool)} : series' = Append(series, s) /\ UNCHANGED <<cfg, chosen>>
Spec == Init /\ [][Next]_<<cfg, series, chosen>>
Pools == [names |-> Names, tagsets |-> TagSets, hosts |-> Hosts, counters |-> CounterVals, gauges |-> GaugeVals, sets |-> SetVals, timers |-> TimerVals,
          masks |-> Masks, pcts |-> Pcts]
C(b, m, p, z, l) == [batch |-> b, mask |-> m, pcts |-> p, compress |-> z, histLimit |-> l, reskeys |-> FALSE]
CR(b, m, p, z, l) == [batch |-> b, mask |-> m, pcts |-> p, compress |-> z, histLimit |-> l, reskeys |-> TRUE]
Case(label, c, ss) == [label |-> label, cfg |-> c, series |-> ss, pools |-> Pools]
Core == {
  Case("", C(0, 1, 3, TRUE, 10), <<S("c", 1, 2, 1, 1), S("g", 2, 3, 1, 1), S("s", 3, 1, 2, 2), S("ms", 4, 4, 1, 2), S("hist", 5, 2, 1, 2)>>),
  Case("", C(2, 1, 2, FALSE, 10), <<S("c", 1, 1, 1, 1), S("c", 2, 1, 1, 2), S("g", 1, 1, 1, 1), S("g", 2, 1, 1, 2)>>),           \* batch filled exactly by the last series
  Case("", C(3, 1, 1, TRUE, 10), <<S("c", 1, 2, 1, 1), S("c", 2, 2, 1, 1), S("c", 3, 2, 1, 1), S("hist", 1, 2, 1, 2), S("hist", 2, 2, 1, 3)>>), \* only histogram timers after an exactly full batch
  Case("", C(1, 1, 1, TRUE, 10), <<S("hist", 1, 4, 1, 2)>>),                                                                       \* a flush of one histogram timer
  Case("", C(0, 3, 4, TRUE, 10), <<S("ms", 1, 1, 1, 3), S("ms", 2, 3, 2, 4)>>),                                                    \* every base sub-metric disabled
  Case("", C(0, 1, 1, TRUE, 1), <<S("hist", 1, 2, 1, 2), S("g", 2, 1, 1, 1)>>),                                                    \* histogram limit 1
  Case("", C(5, 2, 3, FALSE, 10), <<S("s", 1, 5, 3, 2), S("s", 2, 5, 1, 3), S("ms", 3, 5, 3, 3), S("c", 4, 5, 3, 3)>>),
  Case("", C(0, 1, 1, TRUE, 10), <<>>),                                                                                            \* an empty flush
  Case("", CR(3, 1, 1, TRUE, 10), <<S("c", 1, 4, 1, 1), S("c", 2, 4, 1, 1), S("g", 1, 6, 1, 1), S("g", 2, 6, 1, 2), S("c", 3, 1, 1, 1), S("g", 3, 1, 1, 1), S("s", 1, 6, 1, 1)>>), \* three resources, each below the batch size
  Case("", C(0, 1, 1, TRUE, 10), <<S("g", 1, 7, 1, 1), S("c", 2, 7, 3, 1), S("ms", 3, 7, 1, 1)>>),                                 \* tags that merely start with "host"
  Case("same-series-two-hosts", C(0, 1, 1, TRUE, 10), <<S("g", 1, 2, 1, 1), S("g", 1, 2, 3, 2), S("c", 2, 2, 1, 1), S("c", 2, 2, 3, 2)>>),
  Case("fill", C(0, 1, 1, TRUE, 10), <<>>),                                 \* the driver adds series that fill relay datagrams exactly and nearly
  Case("numeric-tag-value", C(0, 1, 1, TRUE, 10), <<S("g", 1, 1, 1, 1)>>),  \* the driver adds the tags ver:1.0 and n:10_20
  Case("empty-tag-value", C(0, 1, 1, TRUE, 10), <<S("g", 1, 1, 1, 1)>>)     \* the driver adds the tag k:
}
ASSUME \A c \in Core : PrintT(<<"CASE", ToJson(c)>>)
Emit == Len(series) < MaxSeries \/ PrintT(<<"CASE", ToJson(Case("", cfg, series))>>)
=============================================================================
