--------------------------- MODULE AccountingProp ---------------------------
(* P-level monitor for X03 (beyond the listed properties): the server's own counters add up.  What an operator reads on the dashboard
   of gostatsd itself -- receiver.datagrams_received, parser.metrics_received, parser.events_received, parser.bad_lines_seen -- travels
   the whole way: component counter -> internal statser -> consolidator -> pipeline -> aggregator -> backend (standalone: a gauge holding
   the running total) or -> forwarder -> upstream (forwarder mode: a counter holding the increase since the last report).
     PStart(B, mode)       a server with B backends; mode = "standalone" | "forwarder"
     POffer(d, m, e, b)    the clients put d datagrams on the socket holding m well-formed metric lines, e event lines, b bad lines
     POwn(k, name, kind, v)   backend k is handed the server's own series name: kind "gauge" (running total) | "count" (increase)
     PSettled              everything offered has been read and two flush intervals have passed with every backend answering
   Clauses: NoPhantomCount (a backend is never told more than was offered so far), Monotone (a running total never decreases),
   Accounted (at PSettled every backend has been told exactly what was offered, for every one of the four names). *)
EXTENDS Naturals, FiniteSets
Names == {"receiver.datagrams_received", "parser.metrics_received", "parser.events_received", "parser.bad_lines_seen"}
VARIABLES anb, amode, tot, told, bad
avars == <<anb, amode, tot, told, bad>>
Zero == [n \in Names |-> 0]
AInit == anb = 0 /\ amode = "standalone" /\ tot = Zero /\ told = <<>> /\ bad = ""
ALatch(v) == bad' = IF bad # "" THEN bad ELSE v
PStart(B, mode) == anb' = B /\ amode' = mode /\ tot' = Zero /\ told' = [k \in 1..B |-> Zero] /\ UNCHANGED bad
POffer(d, m, e, b) ==
  /\ tot' = [n \in Names |-> tot[n] + (CASE n = "receiver.datagrams_received" -> d [] n = "parser.metrics_received" -> m
                                        [] n = "parser.events_received" -> e [] OTHER -> b)]
  /\ UNCHANGED <<anb, amode, told, bad>>
POwn(k, name, kind, v) ==
  LET new == IF kind = "gauge" THEN v ELSE told[k][name] + v IN
  /\ ALatch(IF name \notin Names \/ k \notin 1..anb THEN ""
            ELSE IF new > tot[name] THEN "NoPhantomCount(a backend was told more than was offered)"
            ELSE IF kind = "gauge" /\ v < told[k][name] THEN "Monotone(a running total went down)"
            ELSE "")
  /\ told' = IF name \in Names /\ k \in 1..anb THEN [told EXCEPT ![k][name] = new] ELSE told
  /\ UNCHANGED <<anb, amode, tot>>
PSettled ==
  /\ ALatch(IF \E k \in 1..anb : \E n \in Names : told[k][n] # tot[n]
            THEN "Accounted(what a backend was told differs from what was offered)" ELSE "")
  /\ UNCHANGED <<anb, amode, tot, told>>
PropertyHolds == bad = ""
=============================================================================
