--------------------------- MODULE BackendBatching ---------------------------
(* I-level model for C17: the batchers of the backends as automata over the stream of series a flush walks through.
   A series contributes a run of items (its enabled sub-metrics: lines, JSON series, OTLP metrics, CloudWatch data); items are numbered
   1..N in emission order, Sizes[i] is the byte length of item i's line (statsd relay only).
     "plus20"   datadog flush.go / newrelic flush.go: after each SERIES  maybeFlush: len(open) + Slack >= PerBatch => emit;  finish: len > 0 => emit
                (Slack is 20 in the code; scaled here)                    -- a soft limit, the statement names none
     "influx"   influxdb flush.go: after each LINE  count++; count >= PerBatch => emit;  finish: count > 0 => emit       -- hard limit PerBatch
     "otlp"     otlp group.go insert: append to the last batch; len >= PerBatch => open a new batch; all batches are sent, an empty last
                one is skipped by the sender                                                                            -- hard limit PerBatch
     "chunk"    cloudwatch.go: collect everything, then calls of <= PerBatch (20) data                                   -- hard limit
     "relay"    statsdaemon.go: before a line that would take the buffer over PacketSize, emit the buffer (if it holds anything)
                                                                                   -- hard limit PacketSize unless a single line is longer
   Composed with the BatchProp monitor: every item in exactly one payload, limits kept.  Deviation switches (FALSE = the code as it is):
     NoFinish (the open batch is not emitted at the end), CountLate (influx counts after the check), FitExact (relay emits only when
     the line would take the buffer to PacketSize or over, but compares with >, so an exact fit overflows by the newline) *)
EXTENDS Naturals, Sequences, FiniteSets, TLC
CONSTANTS Kind, MaxSeries, MaxRun, PerBatch, Slack, PacketSize, MaxLine, NoFinish, CountLate, FitExact

VARIABLES runs, sizes, pos, run, open, obytes, phase, want, seen, ilim, blim, bad
Prop == INSTANCE BatchProp
mvars == <<want, seen, ilim, blim, bad>>
vars == <<runs, sizes, pos, run, open, obytes, phase, mvars>>
N == LET S[k \in 0..Len(runs)] == IF k = 0 THEN 0 ELSE S[k - 1] + runs[k] IN S[Len(runs)]
Sum(s) == LET S[k \in 0..Len(s)] == IF k = 0 THEN 0 ELSE S[k - 1] + s[k] IN S[Len(s)]
\* item number of the j-th item of series r
Item(r, j) == Sum(SubSeq(runs, 1, r - 1)) + j

Init == /\ runs \in UNION {[1..n -> 1..MaxRun] : n \in 0..MaxSeries}
        /\ sizes \in IF Kind = "relay" THEN [1..Sum(runs) -> 1..MaxLine] ELSE {[i \in 1..Sum(runs) |-> 1]}
        /\ pos = 1 /\ run = 1 /\ open = <<>> /\ obytes = 0 /\ phase = "start" /\ Prop!PInit

Begin == phase = "start" /\ phase' = "walk"
         /\ Prop!PFlush(1..N, IF Kind \in {"influx", "otlp", "chunk"} THEN PerBatch ELSE 0, IF Kind = "relay" THEN PacketSize ELSE 0)
         /\ UNCHANGED <<runs, sizes, pos, run, open, obytes>>
Emit(batch, bytes) == Prop!PPayload(batch, Len(batch), bytes, TRUE, Len(batch) = 1)
Keep == UNCHANGED <<runs, sizes, phase>>
\* one item of the current series is appended; the batcher's check runs where the code runs it
Step == /\ phase = "walk" /\ pos <= Len(runs)
        /\ LET it == Item(pos, run)
               last == run = runs[pos]
               next == Append(open, it) IN
           /\ (IF last THEN pos' = pos + 1 /\ run' = 1 ELSE pos' = pos /\ run' = run + 1)
           /\ CASE Kind = "plus20" ->
                     IF last /\ Len(next) + Slack >= PerBatch
                     THEN Emit(next, 0) /\ open' = <<>> /\ obytes' = 0
                     ELSE open' = next /\ UNCHANGED <<obytes, mvars>>
                [] Kind = "influx" ->
                     IF (IF CountLate THEN Len(open) ELSE Len(next)) >= PerBatch
                     THEN Emit(next, 0) /\ open' = <<>> /\ obytes' = 0
                     ELSE open' = next /\ UNCHANGED <<obytes, mvars>>
                [] Kind = "relay" ->
                     LET over == IF FitExact THEN obytes + sizes[it] > PacketSize + 1 ELSE obytes + sizes[it] > PacketSize IN
                     IF over /\ open # <<>>
                     THEN Emit(open, obytes) /\ open' = <<it>> /\ obytes' = sizes[it]
                     ELSE open' = next /\ obytes' = obytes + sizes[it] /\ UNCHANGED mvars
                [] OTHER -> open' = next /\ UNCHANGED <<obytes, mvars>>          \* otlp and chunk cut afterwards
        /\ Keep
\* otlp / chunk: everything is collected first, then cut
Cut == /\ phase = "walk" /\ pos > Len(runs) /\ Kind \in {"otlp", "chunk"} /\ open # <<>>
       /\ LET k == IF Len(open) < PerBatch THEN Len(open) ELSE PerBatch IN
          Emit(SubSeq(open, 1, k), 0) /\ open' = SubSeq(open, k + 1, Len(open))
       /\ UNCHANGED <<pos, run, obytes>> /\ Keep
Finish == /\ phase = "walk" /\ pos > Len(runs) /\ (Kind \in {"otlp", "chunk"} => open = <<>>)
          /\ IF open # <<>> /\ ~NoFinish THEN Emit(open, obytes) /\ open' = <<>> /\ obytes' = 0 /\ phase' = "finished"
             ELSE phase' = "finished" /\ UNCHANGED <<open, obytes, mvars>>
          /\ UNCHANGED <<runs, sizes, pos, run>>
Done == phase = "finished" /\ phase' = "done" /\ Prop!PDone /\ UNCHANGED <<runs, sizes, pos, run, open, obytes>>
Next == Begin \/ Step \/ Cut \/ Finish \/ Done
Spec == Init /\ [][Next]_vars
MonitorQuiet == bad = ""
=============================================================================
