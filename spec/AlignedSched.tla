----------------------------- MODULE AlignedSched -----------------------------
(* R2 for C18: configurations (interval i, offset o -- also beyond the interval --, start phase s) and stimulus sequences
   adv d (the clock moves forward by d units, in one jump on the mock clock), take (the consumer takes a tick if there is one /
   the slow consumer lets go), hold (the consumer stops taking ticks).  Units are 100 ms in the harness. *)
EXTENDS Naturals, Sequences, TLC, Json
CONSTANTS MaxLen
VARIABLES c, sched
\* b: where on the calendar the mock clock starts -- 0: 2000-01-01, 1: the Unix epoch (start - offset may then lie before it), 2: a day earlier
Cfgs == {[i |-> i, o |-> o, s |-> s, b |-> 0] : i \in {2, 3, 5}, o \in {0, 1, 4, 7, 11}, s \in {0, 1, 2, 4, 9}}
        \cup {[i |-> 20, o |-> o, s |-> s, b |-> 0] : o \in {0, 3}, s \in {19, 39, 22}}     \* a start just before (and just after) a boundary of a long interval
        \cup {[i |-> i, o |-> o, s |-> s, b |-> b] : i \in {2, 5}, o \in {1, 4, 11}, s \in {0, 1, 9}, b \in {1, 2}}
        \cup {[i |-> 9, o |-> o, s |-> s, b |-> 0] : o \in {0, 4}, s \in {0, 5}}              \* an interval that divides neither a second nor a minute
\* 90 * i: a stall of far more than a minute (a suspended machine, a stepped clock)
Ops(i) == {[op |-> "adv", d |-> d] : d \in {1, i - 1, i, i + 1, 2 * i + 1, 3 * i, 90 * i}} \cup {[op |-> "take", d |-> 0], [op |-> "hold", d |-> 0]}
Init == c \in Cfgs /\ sched = <<>>
Next == Len(sched) < MaxLen /\ \E o \in Ops(c.i) : sched' = Append(sched, o) /\ UNCHANGED c
Spec == Init /\ [][Next]_<<c, sched>>
Emit == Len(sched) < MaxLen \/ PrintT(<<"CASE", ToJson([cfg |-> c, sched |-> sched])>>)
=============================================================================
