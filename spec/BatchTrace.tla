------------------------------ MODULE BatchTrace ------------------------------
(* R3 for C17: every flush of the trace is judged by the BatchProp monitor; the verdicts of all flushes are collected (register 2) and
   printed at the end, so that one broken flush does not hide the others. *)
EXTENDS BatchProp, TLC, TLCExt, Json, IOUtils
Log == ndJsonDeserialize(IOEnv.VERIF_TRACE)
VARIABLES l, cur
tvars == <<pvars, l, cur>>
TInit == TLCSet(1, 0) /\ TLCSet(2, {}) /\ PInit /\ l = 1 /\ cur = 0
Ev(e) == l <= Len(Log) /\ Log[l].ev = e /\ l' = l + 1
Known == {"flush", "payload", "done"}
TNext == \/ Ev("flush") /\ PFlush(Range(Log[l].want), Log[l].ilim, Log[l].blim) /\ cur' = Log[l].n
         \/ Ev("payload") /\ PPayload(Log[l].recs, Log[l].items, Log[l].bytes, Log[l].valid, Log[l].oneline) /\ UNCHANGED cur
         \/ Ev("done") /\ PDone /\ UNCHANGED cur /\ (IF bad' # "" THEN TLCSet(2, TLCGet(2) \cup {<<cur, bad'>>}) ELSE TRUE)
         \/ l <= Len(Log) /\ Log[l].ev \notin Known /\ l' = l + 1 /\ UNCHANGED <<pvars, cur>>
TSpec == TInit /\ [][TNext]_tvars
HighWater == TLCSet(1, IF l > TLCGet(1) THEN l ELSE TLCGet(1))
Accepted == TLCGet(1) = Len(Log) + 1 /\ PrintT(<<"VERDICTS", ToJson(TLCGet(2))>>)
=============================================================================
