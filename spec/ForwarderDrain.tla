---------------------------- MODULE ForwarderDrain ----------------------------
(* I-level model of how HttpForwarderHandlerV2.Run ends (pkg/statsd/handler_http_forwarder_v2.go), written down because the X02 driver
   observes goroutines left behind when a forwarder is stopped with posts outstanding.
     Run: for every consolidated flush, a MERGE goroutine is started; it takes a request slot (acquireSem) per body and starts a POST
          goroutine that gives the slot back when the post is over.  When the flush channel is closed (shutdown) Run takes every slot
          itself (cap(sem) times acquireSem) -- "wait for the posts in flight" -- and returns.
   The slots are a plain buffered channel: Run's drain loop and a merge goroutine that has not got its slot yet COMPETE for the slots the
   finishing posts give back.  If the drain loop wins them all, Run returns while the merge goroutine still waits -- for ever, its flush is
   never posted and never counted as dropped.  TLC finds that behaviour (NothingLeftBehind is violated); it is reported as an observation, not as
   a verdict on a listed property (DESIGN 11.8).  With MergeSeesDone = TRUE (the merge goroutine gives up when the handler is closed)
   nothing is left behind. *)
EXTENDS Naturals, FiniteSets
CONSTANTS Slots, Flushes, MergeSeesDone
VARIABLES free, posting, merge, pendingFlushes, closed, drained, run
\* free: slots in the channel; posting: posts in flight; merge: flush -> "none" | "waiting" | "done"; run: "serving" | "draining" | "returned"
vars == <<free, posting, merge, pendingFlushes, closed, drained, run>>
Init == free = Slots /\ posting = 0 /\ merge = [f \in 1..Flushes |-> "none"] /\ pendingFlushes = Flushes /\ closed = FALSE /\ drained = 0 /\ run = "serving"
\* a consolidated flush arrives: its merge goroutine now wants a slot
Flush == run = "serving" /\ ~closed /\ pendingFlushes > 0 /\ \E f \in 1..Flushes : merge[f] = "none" /\ merge' = [merge EXCEPT ![f] = "waiting"]
         /\ pendingFlushes' = pendingFlushes - 1 /\ UNCHANGED <<free, posting, closed, drained, run>>
MergeGetsSlot(f) == merge[f] = "waiting" /\ free > 0 /\ free' = free - 1 /\ posting' = posting + 1 /\ merge' = [merge EXCEPT ![f] = "done"]
                    /\ UNCHANGED <<pendingFlushes, closed, drained, run>>
MergeGivesUp(f) == MergeSeesDone /\ merge[f] = "waiting" /\ closed /\ merge' = [merge EXCEPT ![f] = "done"] /\ UNCHANGED <<free, posting, pendingFlushes, closed, drained, run>>
PostEnds == posting > 0 /\ posting' = posting - 1 /\ free' = free + 1 /\ UNCHANGED <<merge, pendingFlushes, closed, drained, run>>
Close == ~closed /\ closed' = TRUE /\ run' = "draining" /\ UNCHANGED <<free, posting, merge, pendingFlushes, drained>>
DrainOne == run = "draining" /\ drained < Slots /\ free > 0 /\ free' = free - 1 /\ drained' = drained + 1 /\ UNCHANGED <<posting, merge, pendingFlushes, closed, run>>
Return == run = "draining" /\ drained = Slots /\ run' = "returned" /\ UNCHANGED <<free, posting, merge, pendingFlushes, closed, drained>>
Next == Flush \/ (\E f \in 1..Flushes : MergeGetsSlot(f) \/ MergeGivesUp(f)) \/ PostEnds \/ Close \/ DrainOne \/ Return
Spec == Init /\ [][Next]_vars /\ WF_vars(Next)
TypeOK == free \in 0..Slots /\ posting \in 0..Slots /\ free + posting + drained <= Slots
\* when Run has returned no post is in flight (that is what the drain loop is for) ...
PostsDone == run = "returned" => posting = 0
\* ... and whatever else it started is gone soon after
NothingLeftBehind == (run = "returned") ~> (\A f \in 1..Flushes : merge[f] # "waiting")
=============================================================================
