------------------------------- MODULE Gostatsd -------------------------------
(* I-level composition beyond the listed properties: a forwarder-mode server in front of an aggregating (standalone) server.
     forwarder   handler -> consolidator (Accept) -> Flush: one body per non-empty flush -> request: attempt, answer, back-off,
                 retry until success or the window is over (then counted as dropped)            (handler_http_forwarder_v2.go)
     network     an attempt either does not reach the server (Refuse) or is ingested; the response of an ingested attempt either
                 arrives or is lost (the forwarder then sees a failed attempt and retries)
     server      ingestion merges the body's counters into the aggregator (Ingest); a flush reports and resets them (ServerFlush)
   Composed with the EndToEndProp monitor.  Deviation switches (FALSE = as coded): ResendAfterSuccess (the forwarder retries a body whose
   attempt succeeded), ServerKeeps (the aggregating server does not reset a counter after reporting it). *)
EXTENDS Naturals, FiniteSets, Sequences, TLC
CONSTANTS MaxPoints, MaxAttempts, MaxFlushes, ResendAfterSuccess, ServerKeeps
VARIABLES point, cons, bodies, nextB, fflushes, agg, sflushes,
          acc, carrier, ingests, lost, dropped, reported, bad
Prop == INSTANCE EndToEndProp
ivars == <<point, cons, bodies, nextB, fflushes, agg, sflushes>>
mvars == <<acc, carrier, ingests, lost, dropped, reported, bad>>
vars == <<ivars, mvars>>
Init == point = 1 /\ cons = {} /\ bodies = {} /\ nextB = 1 /\ fflushes = 0 /\ agg = [d \in {} |-> 0] /\ sflushes = 0 /\ Prop!EInit
Accept == point <= MaxPoints /\ cons' = cons \cup {point} /\ point' = point + 1 /\ Prop!PAccept(point)
          /\ UNCHANGED <<bodies, nextB, fflushes, agg, sflushes>>
FwdFlush == /\ fflushes < MaxFlushes /\ fflushes' = fflushes + 1 /\ cons' = {}
            /\ IF cons = {} THEN UNCHANGED <<bodies, nextB, mvars>>
               ELSE bodies' = bodies \cup {[b |-> nextB, ds |-> cons, n |-> 0, st |-> "send"]} /\ nextB' = nextB + 1 /\ Prop!PBody(nextB, cons)
            /\ UNCHANGED <<point, agg, sflushes>>
Upd(x, y) == bodies' = (bodies \ {x}) \cup {y}
Bump(ds) == [d \in DOMAIN agg \cup ds |-> (IF d \in DOMAIN agg THEN agg[d] ELSE 0) + (IF d \in ds THEN 1 ELSE 0)]
Fail(x) == IF x.n + 1 >= MaxAttempts THEN [x EXCEPT !.n = @ + 1, !.st = "dropped"] ELSE [x EXCEPT !.n = @ + 1]
Refuse(x) == /\ x.st = "send" /\ Upd(x, Fail(x))
             /\ (IF x.n + 1 >= MaxAttempts THEN Prop!PDropped(x.b) ELSE UNCHANGED mvars)
             /\ UNCHANGED <<point, cons, nextB, fflushes, agg, sflushes>>
IngestOK(x) == /\ x.st = "send" /\ agg' = Bump(x.ds) /\ Prop!PIngest(x.b)
               /\ Upd(x, [x EXCEPT !.n = @ + 1, !.st = IF ResendAfterSuccess /\ x.n = 0 THEN "send" ELSE "done"])
               /\ UNCHANGED <<point, cons, nextB, fflushes, sflushes>>
\* ingested, but the response is lost: two monitor events in one step would collide, so the loss is a step of its own
IngestLost(x) == /\ x.st = "send" /\ agg' = Bump(x.ds) /\ Prop!PIngest(x.b)
                 /\ Upd(x, [x EXCEPT !.st = "losing"]) /\ UNCHANGED <<point, cons, nextB, fflushes, sflushes>>
Lose(x) == /\ x.st = "losing" /\ Prop!PLost(x.b) /\ Upd(x, [Fail(x) EXCEPT !.st = IF x.n + 1 >= MaxAttempts THEN "dropping" ELSE "send"])
           /\ UNCHANGED <<point, cons, nextB, fflushes, agg, sflushes>>
Drop(x) == /\ x.st = "dropping" /\ Prop!PDropped(x.b) /\ Upd(x, [x EXCEPT !.st = "dropped"])
           /\ UNCHANGED <<point, cons, nextB, fflushes, agg, sflushes>>
\* the server's flush reports every series it holds, one at a time, then forgets them
ServerReport == /\ DOMAIN agg # {} /\ LET d == CHOOSE x \in DOMAIN agg : TRUE IN
                     /\ Prop!PReport(d, agg[d])
                     /\ agg' = IF ServerKeeps /\ sflushes = 0 THEN agg ELSE [x \in DOMAIN agg \ {d} |-> agg[x]]
                     /\ sflushes' = IF ServerKeeps THEN 1 ELSE sflushes
                /\ UNCHANGED <<point, cons, bodies, nextB, fflushes>>
Idle == cons = {} /\ DOMAIN agg = {} /\ \A x \in bodies : x.st \in {"done", "dropped"}
Quiesce == Idle /\ point > MaxPoints /\ Prop!PQuiesce /\ UNCHANGED ivars
Next == Accept \/ FwdFlush \/ ServerReport \/ Quiesce
        \/ \E x \in bodies : Refuse(x) \/ IngestOK(x) \/ IngestLost(x) \/ Lose(x) \/ Drop(x)
Spec == Init /\ [][Next]_vars
MonitorQuiet == bad = ""
=============================================================================
