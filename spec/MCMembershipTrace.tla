---- MODULE MCMembershipTrace ----
EXTENDS MembershipTrace
N3 == {"a", "b", "c"}
====
