--------------------------- MODULE FlushNotifier ---------------------------
(* I-level model of pkg/stats/flush_notifier.go: the "a flush has happened" fan-out every component of a server hangs on
   (receiver, parsers, cloud handler, forwarder, channel watchers all RegisterFlush; the flusher calls NotifyFlush).

   One notifier goroutine (the flusher) and a few registrant goroutines.  The code:
     RegisterFlush : Lock; append an unbuffered channel; Unlock
     unregister    : Lock; filter the slice in place; close(channel); Unlock
     NotifyFlush   : RLock; for each target { select { case target <- d: default: } }; RUnlock
   Each of the lock-protected sections is one action except the notifier's loop, which is one action per target (other
   registrants may start or stop waiting between two sends; nobody may take the write lock meanwhile).

   What users of the notifier rely on (checked as invariants):
     NoSendOnClosed  -- NotifyFlush never sends on a closed channel (a panic that would take the flusher down)
     NotifyNeverWaits-- the notifier has no waiting state other than the lock (structural: there is no such action)
     AtMostOnce      -- one NotifyFlush call hands a registrant at most one value
     ParkedGetsIt    -- a registrant that is registered and parked in its receive from before the call starts until the call
                        ends, and is not unregistered meanwhile, has got the call's value when the call ends
   Deviation SnapshotThenSend (a "shorter critical section": copy the slice header under the lock, send after releasing it)
   must be refuted: the unregister's in-place filter and close then race with the sends. *)
EXTENDS Naturals, Sequences, FiniteSets, TLC

CONSTANTS Ids,              \* registrant identities
          MaxNotifies,      \* bound on NotifyFlush calls
          MaxRegs,          \* bound on registrations per id
          SnapshotThenSend  \* deviation switch

VARIABLES slots,     \* the backing array of flushTargets: sequence of ids (the channel of that id's current registration)
          len,       \* len(flushTargets)
          closed,    \* ids whose current channel is closed
          rstate,    \* id -> "out" | "idle" | "parked"
          regs,      \* id -> registrations made so far
          wlock,     \* write lock held (always released within the action; kept for documentation)
          readers,   \* number of read locks held
          npc,       \* notifier: "idle" | "loop"
          snapN,     \* notifier: number of targets it is going to visit (len at the time of the snapshot)
          idx,       \* notifier: next index
          calls,     \* NotifyFlush calls started
          gotThis,   \* id -> values received from the current call
          since,     \* ids registered and parked continuously since before the current call started
          bad        \* latched first broken clause

vars == <<slots, len, closed, rstate, regs, wlock, readers, npc, snapN, idx, calls, gotThis, since, bad>>

Init == /\ slots = <<>> /\ len = 0 /\ closed = {} /\ rstate = [i \in Ids |-> "out"] /\ regs = [i \in Ids |-> 0]
        /\ wlock = FALSE /\ readers = 0 /\ npc = "idle" /\ snapN = 0 /\ idx = 1 /\ calls = 0
        /\ gotThis = [i \in Ids |-> 0] /\ since = {} /\ bad = ""

Latch(c) == bad' = IF bad = "" THEN c ELSE bad

CanWrite == readers = 0 /\ ~wlock

Register(i) ==
    /\ rstate[i] = "out" /\ regs[i] < MaxRegs /\ CanWrite
    /\ slots' = IF Len(slots) > len THEN [slots EXCEPT ![len + 1] = i] ELSE Append(slots, i)   \* append reuses the backing array's tail
    /\ len' = len + 1
    /\ closed' = closed \ {i}                        \* a fresh channel
    /\ rstate' = [rstate EXCEPT ![i] = "idle"] /\ regs' = [regs EXCEPT ![i] = @ + 1]
    /\ UNCHANGED <<wlock, readers, npc, snapN, idx, calls, gotThis, since, bad>>

Park(i) ==
    /\ rstate[i] = "idle"
    /\ rstate' = [rstate EXCEPT ![i] = "parked"]
    /\ UNCHANGED <<slots, len, closed, regs, wlock, readers, npc, snapN, idx, calls, gotThis, since, bad>>

\* targets := flushTargets[:0]; append the others in place; the tail of the backing array keeps its old contents
FilterOut(i) ==
    LET keep == SelectSeq(SubSeq(slots, 1, len), LAMBDA x : x # i)
    IN keep \o SubSeq(slots, Len(keep) + 1, Len(slots))

Unregister(i) ==
    /\ rstate[i] \in {"idle", "parked"} /\ CanWrite
    /\ slots' = FilterOut(i) /\ len' = len - 1
    /\ closed' = closed \cup {i}
    /\ rstate' = [rstate EXCEPT ![i] = "out"]         \* a parked receiver wakes up with ok = false
    /\ since' = since \ {i}
    /\ UNCHANGED <<regs, wlock, readers, npc, snapN, idx, calls, gotThis, bad>>

NotifyStart ==
    /\ npc = "idle" /\ calls < MaxNotifies /\ ~wlock
    /\ npc' = "loop" /\ idx' = 1 /\ snapN' = len /\ calls' = calls + 1
    /\ readers' = IF SnapshotThenSend THEN readers ELSE readers + 1
    /\ gotThis' = [i \in Ids |-> 0]
    /\ since' = {i \in Ids : rstate[i] = "parked"}
    /\ UNCHANGED <<slots, len, closed, rstate, regs, wlock, bad>>

\* one iteration of the loop: select { case target <- d: default: }
NotifySend ==
    /\ npc = "loop" /\ idx <= snapN
    /\ LET t == slots[idx] IN
         IF t \in closed
         THEN /\ Latch("NoSendOnClosed") /\ UNCHANGED <<rstate, gotThis>>
         ELSE IF rstate[t] = "parked"
              THEN /\ rstate' = [rstate EXCEPT ![t] = "idle"]
                   /\ gotThis' = [gotThis EXCEPT ![t] = @ + 1]
                   /\ IF gotThis[t] >= 1 THEN Latch("AtMostOnce") ELSE UNCHANGED bad
              ELSE UNCHANGED <<rstate, gotThis, bad>>
    /\ idx' = idx + 1
    /\ since' = since \ {i \in Ids : rstate'[i] # "parked" /\ gotThis'[i] = 0}
    /\ UNCHANGED <<slots, len, closed, regs, wlock, readers, npc, snapN, calls>>

NotifyEnd ==
    /\ npc = "loop" /\ idx > snapN
    /\ npc' = "idle"
    /\ readers' = IF SnapshotThenSend THEN readers ELSE readers - 1
    /\ IF \E i \in since : gotThis[i] = 0 THEN Latch("ParkedGetsIt") ELSE UNCHANGED bad
    /\ since' = {}
    /\ UNCHANGED <<slots, len, closed, rstate, regs, wlock, snapN, idx, calls, gotThis>>

Next == \/ \E i \in Ids : Register(i) \/ Park(i) \/ Unregister(i)
        \/ NotifyStart \/ NotifySend \/ NotifyEnd

Spec == Init /\ [][Next]_vars

MonitorQuiet == bad = ""
\* the loop never reads beyond the live part of the slice when the lock is held for the whole call
InBounds == (npc = "loop" /\ ~SnapshotThenSend) => snapN = len
=============================================================================
