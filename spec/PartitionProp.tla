---------------------------- MODULE PartitionProp ----------------------------
(* P-level monitor for C06, driven by observed events (trace validation, R3).
     PSplit(n, keys, shards, same)   one call of MetricMap.Split(n) (or one DispatchMetricMap): the series of the batch,
                                     the series found in each shard, and whether every value arrived unchanged
     PReport(flush, who, keys)       an aggregator `who` reported `keys` in flush number `flush` (end-to-end clause)
   State: route[<<n, key>>] learned on first sight; owner[key]; seen[flush]. The first broken clause is latched in bad. *)
EXTENDS Naturals, FiniteSets, Sequences

VARIABLES route, owner, seen, bad
pvars == <<route, owner, seen, bad>>

PInit == route = <<>> /\ owner = <<>> /\ seen = <<>> /\ bad = ""

Latch(v) == bad' = IF bad # "" THEN bad ELSE v

ShardsOf(shards, k) == {i \in 1..Len(shards) : k \in shards[i]}
PSplit(n, keys, shards, same) ==
  LET all == UNION {shards[i] : i \in 1..Len(shards)}
      verdict == IF Len(shards) # n THEN "ShardCount"
                 ELSE IF \E k \in all : Cardinality(ShardsOf(shards, k)) > 1 THEN "ExactlyOneShard(duplicated)"
                 ELSE IF all # keys THEN (IF keys \ all # {} THEN "UnionEqualsBatch(lost)" ELSE "UnionEqualsBatch(phantom)")
                 ELSE IF ~same THEN "ValuesUntouched"
                 ELSE IF \E k \in keys : <<n, k>> \in DOMAIN route /\ route[<<n, k>>] \notin ShardsOf(shards, k)
                      THEN "RouteDependsOnlyOnSeriesAndCount"
                 ELSE ""
      learned == {<<n, k>> : k \in all} \ DOMAIN route
  IN /\ Latch(verdict)
     /\ route' = [p \in DOMAIN route \cup learned |->
                    IF p \in DOMAIN route THEN route[p] ELSE CHOOSE i \in ShardsOf(shards, p[2]) : TRUE]
     /\ UNCHANGED <<owner, seen>>

PReport(flush, who, keys) ==
  LET already == IF flush \in DOMAIN seen THEN seen[flush] ELSE {}
      verdict == IF keys \cap already # {} THEN "AtMostOncePerFlush"
                 ELSE IF \E k \in keys : k \in DOMAIN owner /\ owner[k] # who THEN "SameAggregator"
                 ELSE ""
  IN /\ Latch(verdict)
     /\ seen' = [f \in DOMAIN seen \cup {flush} |-> IF f = flush THEN already \cup keys ELSE seen[f]]
     /\ owner' = [k \in DOMAIN owner \cup keys |-> IF k \in DOMAIN owner THEN owner[k] ELSE who]
     /\ UNCHANGED route

PropertyHolds == bad = ""
=============================================================================
