---------------------------- MODULE ChangeGauge ----------------------------
(* pkg/stats/change_gauge.go (X04, beyond the listed properties): the "send a rarely changing value, repeatedly" gauge behind
   parser.bad_lines_seen and the backends' retried-batch counters -- figures an operator alerts on.  P-level reading of its doc comment ("if
   this is changed, SendIfChanged will send the value for 22 flush intervals"): a call of SendIfChanged emits a gauge exactly when the value
   it sees differs from the value seen by one of the previous 22 calls' predecessors -- i.e. some call among the last 22 (this one included)
   saw a value different from the call before it (the first call's predecessor value is 0) -- and what it emits is the value it sees now.
   I-level: the two fields prev / pending of the code.  TLC checks I = P on every history; the histories are printed with the expected
   emissions and replayed by harness/notif (TestChangeGauge) into the real ChangeGauge.
     set v       Cur becomes v (not looked at until the next call)
     send k      k consecutive calls of SendIfChanged (k in 1, 2, 20, 21, 22, 23: around the repeat count) *)
EXTENDS Integers, Sequences, TLC, Json
CONSTANTS MaxLen, Repeat
VARIABLES cur, seen, prev, pending, hist, agree
vars == <<cur, seen, prev, pending, hist, agree>>
\* P-level: what the call that appended the last element of s emits (-1 = nothing)
Obs(s) == LET n == Len(s)
              Changed(j) == s[j] # (IF j = 1 THEN 0 ELSE s[j - 1])
          IN IF \E j \in (IF n > Repeat - 1 THEN n - (Repeat - 1) ELSE 1)..n : Changed(j) THEN s[n] ELSE -1
\* I-level: one call on (prev, pending); returns <<prev', pending', emission>>
Call(p, q, v) == LET q1 == IF v # p THEN Repeat ELSE q IN IF q1 > 0 THEN <<v, q1 - 1, v>> ELSE <<v, q1, -1>>
RECURSIVE Calls(_, _, _, _, _, _)
\* k calls: <<seen', prev', pending', emissions (P-level), agree>>
Calls(k, s, p, q, outs, ok) ==
  IF k = 0 THEN <<s, p, q, outs, ok>>
  ELSE LET s1 == Append(s, cur)  c == Call(p, q, cur)
       IN Calls(k - 1, s1, c[1], c[2], Append(outs, Obs(s1)), ok /\ c[3] = Obs(s1))
Init == cur = 0 /\ seen = <<>> /\ prev = 0 /\ pending = 0 /\ hist = <<>> /\ agree = TRUE
Set(v) == /\ v # cur /\ cur' = v /\ hist' = Append(hist, [op |-> "set", v |-> v, k |-> 0, exp |-> <<>>]) /\ UNCHANGED <<seen, prev, pending, agree>>
Send(k) == LET r == Calls(k, seen, prev, pending, <<>>, TRUE) IN
           /\ seen' = r[1] /\ prev' = r[2] /\ pending' = r[3] /\ agree' = (agree /\ r[5])
           /\ hist' = Append(hist, [op |-> "send", v |-> cur, k |-> k, exp |-> r[4]]) /\ UNCHANGED cur
Next == Len(hist) < MaxLen /\ (\E v \in 0..2 : Set(v) \/ \E k \in {1, 2, Repeat - 2, Repeat - 1, Repeat, Repeat + 1} : Send(k))
Spec == Init /\ [][Next]_vars
IAgreesWithP == agree
Emit == Len(hist) < MaxLen \/ hist[Len(hist)].op # "send" \/ PrintT(<<"CASE", ToJson([hist |-> hist])>>)
=============================================================================
