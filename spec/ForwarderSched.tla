---------------------------- MODULE ForwarderSched ----------------------------
(* R2 for C15 (and the retry part of C20): stimulus schedules for the real HttpForwarderHandlerV2.
   Configuration: consolidator slots, concurrent-merge, max-requests, retry window (ms; -1 = no retries), dynamic headers on/off,
   manual flush through the flush coordinator or timer driven.
     disp k      client k dispatches a batch (two of its own datapoints, one on a series shared by all clients; with dynamic
                 headers on, client k's series carry header value k)          dispbad k   the same, plus a tag that is not valid UTF-8
     flush       manual: coordinator.Flush();  timer: virtual time passes one flush interval
     out o n     the next n attempts are answered: ok | okshort (2xx whose response body breaks off) | 500 | 404 | connerr | slow (2 s, then 500)
     adv d       virtual time advances d ms (back-off timers fire)
     hold / release   dispatchers are made slow: a merging client is held inside the consolidator slot (large batch) *)
EXTENDS Integers, Sequences, TLC, Json
CONSTANTS MaxLen
VARIABLES cfg, sched
Cfgs == {[slots |-> s, merge |-> m, reqs |-> r, w |-> w, dyn |-> d, manual |-> man] :
           s \in {1, 2}, m \in {1, 2}, r \in {1, 2}, w \in {-1, 3000}, d \in BOOLEAN, man \in BOOLEAN}
O(op, k, o, n) == [op |-> op, k |-> k, o |-> o, n |-> n]
Ops == {O("disp", k, "", 0) : k \in {1, 2}} \cup {O("dispbad", 2, "", 0)} \cup {O("flush", 0, "", 0)} \cup
       {O("out", 0, o, n) : o \in {"ok", "okshort", "500", "404", "connerr", "slow"}, n \in {1, 3}} \cup {O("adv", 0, "", d) : d \in {400, 1000, 4000}}
Core == {
  [cfg |-> [slots |-> 2, merge |-> 1, reqs |-> 1, w |-> 3000, dyn |-> TRUE, manual |-> TRUE],
   sched |-> <<O("disp", 1, "", 0), O("disp", 2, "", 0), O("out", 0, "500", 3), O("flush", 0, "", 0), O("adv", 0, "", 1000), O("disp", 1, "", 0), O("flush", 0, "", 0),
               O("adv", 0, "", 4000), O("adv", 0, "", 4000)>>],
  [cfg |-> [slots |-> 1, merge |-> 2, reqs |-> 2, w |-> -1, dyn |-> FALSE, manual |-> FALSE],
   sched |-> <<O("disp", 1, "", 0), O("out", 0, "connerr", 1), O("flush", 0, "", 0), O("disp", 2, "", 0), O("flush", 0, "", 0), O("out", 0, "slow", 1), O("disp", 1, "", 0),
               O("flush", 0, "", 0), O("adv", 0, "", 4000)>>],
  [cfg |-> [slots |-> 2, merge |-> 2, reqs |-> 2, w |-> 3000, dyn |-> FALSE, manual |-> TRUE],
   sched |-> <<O("disp", 1, "", 0), O("dispbad", 2, "", 0), O("flush", 0, "", 0), O("adv", 0, "", 400)>>],
  [cfg |-> [slots |-> 2, merge |-> 1, reqs |-> 2, w |-> 3000, dyn |-> FALSE, manual |-> TRUE],
   sched |-> <<O("dispbad", 1, "", 0), O("dispbad", 1, "", 0), O("disp", 2, "", 0), O("flush", 0, "", 0), O("adv", 0, "", 400)>>],
  [cfg |-> [slots |-> 1, merge |-> 1, reqs |-> 1, w |-> 3000, dyn |-> FALSE, manual |-> TRUE],
   sched |-> <<O("disp", 1, "", 0), O("out", 0, "404", 1), O("flush", 0, "", 0), O("adv", 0, "", 1000), O("adv", 0, "", 1000)>>]
}
ASSUME \A c \in Core : PrintT(<<"CASE", ToJson(c)>>)
Init == cfg \in Cfgs /\ sched = <<>>
Next == Len(sched) < MaxLen /\ \E o \in Ops : sched' = Append(sched, o) /\ UNCHANGED cfg
Spec == Init /\ [][Next]_<<cfg, sched>>
Emit == Len(sched) < MaxLen \/ PrintT(<<"CASE", ToJson([cfg |-> cfg, sched |-> sched])>>)
=============================================================================
