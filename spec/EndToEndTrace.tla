----------------------------- MODULE EndToEndTrace -----------------------------
EXTENDS EndToEndProp, TLC, TLCExt, Json, IOUtils, Sequences
Log == ndJsonDeserialize(IOEnv.VERIF_TRACE)
VARIABLE l
tvars == <<evars, l>>
TInit == TLCSet(1, 0) /\ EInit /\ l = 1
Ev(e) == l <= Len(Log) /\ Log[l].ev = e /\ l' = l + 1
SetOf(s) == {s[i] : i \in 1..Len(s)}
Known == {"start", "accept", "body", "ingest", "lost", "dropped", "report", "quiesce"}
TNext == \/ Ev("start") /\ PStart
         \/ Ev("accept") /\ PAccept(Log[l].d)
         \/ Ev("body") /\ PBody(Log[l].b, SetOf(Log[l].ds))
         \/ Ev("ingest") /\ PIngest(Log[l].b)
         \/ Ev("lost") /\ PLost(Log[l].b)
         \/ Ev("dropped") /\ PDropped(Log[l].b)
         \/ Ev("report") /\ PReport(Log[l].d, Log[l].n)
         \/ Ev("quiesce") /\ PQuiesce
         \/ l <= Len(Log) /\ Log[l].ev \notin Known /\ l' = l + 1 /\ UNCHANGED evars
TSpec == TInit /\ [][TNext]_tvars
HighWater == TLCSet(1, IF l > TLCGet(1) THEN l ELSE TLCGet(1))
Accepted == TLCGet(1) = Len(Log) + 1
=============================================================================
