----------------------------- MODULE EnrichProp -----------------------------
(* P-level monitor for C11 (and the lookup part of C19), written from the statement; driven by observed events.

     PEnter(ids, src, kind, hit)   items (datapoints of one source, or one event) enter the cloud stage; hit is what the
                                   instance cache says for src at that moment: "pos" | "neg" | "miss" | "empty" (no source)
     PLookupReq(src)               the stage asks for a lookup of src (a value appears on IpSink)
     PAnswer(src, res)             a lookup result for src is delivered to the stage: "pos" | "pos0" (an instance without tags) |
                                   "neg" (not found or failed)
     PLeave(ids, tagged)           items reach the next handler; tagged = "pos" (instance tags added and instance id as
                                   source) or "none" (unchanged)
     PGauge(mh, eh, ei)            the stage reports hosts waiting (metrics), hosts waiting (events), events waiting
     PSettle                       the stage is idle: everything that needs no answer must have left
     PQuiesce                      all lookups answered and the stage idle: everything must have left

   Clauses: AtMostOnce, ExactlyOnce, LeftBeforeAnswer, Tagging, OneLookup, LookupNeeded (a waiting source is eventually
   requested), GaugeTruth. *)
EXTENDS Naturals, FiniteSets, Sequences

VARIABLES info,        \* id -> [src, kind, expect]   expect = "wait" while the item needs an answer, else "pos" / "none"
          left, outstanding, requested, bad
pvars == <<info, left, outstanding, requested, bad>>

PInit == info = <<>> /\ left = {} /\ outstanding = {} /\ requested = {} /\ bad = ""
Latch(v) == bad' = IF bad # "" THEN bad ELSE v
Waiting == {i \in DOMAIN info : info[i].expect = "wait"}
WaitingSrc(kind) == {info[i].src : i \in {j \in Waiting : info[j].kind = kind}}

PEnter(ids, src, kind, hit) ==
  /\ Latch(IF ids \cap DOMAIN info # {} THEN "harness: id reused" ELSE "")
  /\ info' = [i \in DOMAIN info \cup ids |->
                IF i \in ids THEN [src |-> src, kind |-> kind,
                                   expect |-> CASE hit = "miss" -> "wait" [] hit = "pos" -> "pos" [] OTHER -> "none"]
                ELSE info[i]]
  /\ UNCHANGED <<left, outstanding, requested>>

PLookupReq(src) ==
  /\ Latch(IF src \in outstanding THEN "OneLookup" ELSE "")
  /\ outstanding' = outstanding \cup {src} /\ requested' = requested \cup {src}
  /\ UNCHANGED <<info, left>>

PAnswer(src, res) ==
  /\ info' = [i \in DOMAIN info |-> IF info[i].expect = "wait" /\ info[i].src = src
                                     THEN [info[i] EXCEPT !.expect = IF res = "neg" THEN "none" ELSE "pos"] ELSE info[i]]
  /\ outstanding' = outstanding \ {src}
  /\ UNCHANGED <<left, requested, bad>>

PLeave(ids, tagged) ==
  /\ Latch(IF ~(ids \subseteq DOMAIN info) THEN "NoPhantom"
           ELSE IF ids \cap left # {} THEN "AtMostOnce"
           ELSE IF ids \cap Waiting # {} THEN "LeftBeforeAnswer"
           ELSE IF \E i \in ids : info[i].expect # tagged THEN "Tagging"
           ELSE "")
  /\ left' = left \cup ids
  /\ UNCHANGED <<info, outstanding, requested>>

PGauge(mh, eh, ei) ==
  /\ Latch(IF mh # Cardinality(WaitingSrc("m")) THEN "GaugeTruth(hosts_queued metric)"
           ELSE IF eh # Cardinality(WaitingSrc("e")) THEN "GaugeTruth(hosts_queued event)"
           ELSE IF ei # Cardinality({i \in Waiting : info[i].kind = "e"}) THEN "GaugeTruth(items_queued)"
           ELSE "")
  /\ UNCHANGED <<info, left, outstanding, requested>>

PSettle ==
  /\ Latch(IF (DOMAIN info \ Waiting) \ left # {} THEN "ExactlyOnce(not delivered although no answer is needed)" ELSE "")
  /\ UNCHANGED <<info, left, outstanding, requested>>

PQuiesce ==
  /\ Latch(IF Waiting # {} THEN "LookupNeeded(items still waiting at quiescence)"
           ELSE IF DOMAIN info \ left # {} THEN "ExactlyOnce(lost)" ELSE "")
  /\ UNCHANGED <<info, left, outstanding, requested>>

PropertyHolds == bad = ""
=============================================================================
