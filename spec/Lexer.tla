------------------------------- MODULE Lexer -------------------------------
(* I-level for C02 / C03: internal/lexer/lexer.go as a token-by-token transducer. One control
   state per state function of the Go lexer (lexSpecial, lexKeySep, lexKey, lexValueSep, lexValue,
   lexType, lexMetricAttributes, lexMetricAttribute; lexDatadogSpecial, lexUint32 x2, lexEventBody,
   lexEventAttributes, lexEventAttribute), one Delta clause per `case` of its switch. Final(q) is
   what Run returns if the input ends now (next() = eof in that state).

   Deliberately modelled oddities of the code:
     * lexMetricAttribute / lexEventAttribute consume the first byte of a field before looking at
       it, so an empty field ("||") swallows the following field ("attr0" on "|" -> "ignore");
     * several '@' fields: each is parsed (first failure rejects), the last one wins;
     * several '#' fields: tags accumulate;
     * a known event key not followed by ':' is rejected, an unknown key is ignored.
   Not modelled at token level (the model makes no prediction, Final = "any"): header numbers near
   2^32 / 2^64 (token class Huge: the header is read on, then control state "ev_hbody" absorbs the
   body; see EventBodyWrap.tla for the uint32 arithmetic) and a declared length that ends inside a
   multi-byte token (control state "ANY"). *)
EXTENDS Grammar

Q0 == [st |-> "special", name |-> <<>>, val |-> <<>>, typ |-> "", rates |-> <<>>, tags |-> <<>>,
       cur |-> <<>>, key |-> "", n1 |-> <<>>, n2 |-> <<>>, left |-> 0, title |-> <<>>, text |-> <<>>,
       date |-> <<>>, host |-> <<>>, aggkey |-> <<>>, stype |-> <<>>, pri |-> <<>>, alert |-> <<>>, hg |-> FALSE]

Err(q)  == [q EXCEPT !.st = "ERR"]
AnyQ(q)  == [q EXCEPT !.st = "ANY"]
AddTag(q) == IF q.cur = <<>> THEN q ELSE [q EXCEPT !.tags = Append(q.tags, q.cur), !.cur = <<>>]

\* commit of an event attribute value at '|' or eof (lexEventAttribute closures)
Commit(q) ==
  CASE q.key = "h" -> [q EXCEPT !.host = q.cur, !.cur = <<>>]
    [] q.key = "k" -> [q EXCEPT !.aggkey = q.cur, !.cur = <<>>]
    [] q.key = "s" -> [q EXCEPT !.stype = q.cur, !.cur = <<>>]
    [] q.key = "p" -> IF q.cur \in {<<"low">>, <<"normal">>} THEN [q EXCEPT !.pri = q.cur, !.cur = <<>>] ELSE Err(q)
    [] q.key = "t" -> IF q.cur \in {<<"info">>, <<"error">>, <<"warning">>, <<"success">>}
                      THEN [q EXCEPT !.alert = q.cur, !.cur = <<>>] ELSE Err(q)
    [] OTHER -> Err(q)

KeySep(q, t) ==                                   \* lexKeySep / lexKey
  IF t = ":" THEN (IF q.name = <<>> THEN Err(q) ELSE [q EXCEPT !.st = "valsep"])
  ELSE [q EXCEPT !.st = "keysep", !.name = q.name \o NameNorm(t)]

AfterBody(q, n) == IF n = 0 THEN "ev_attrs" ELSE "ev_text"

Delta(q, t) ==
  CASE q.st = "special" -> IF t = "_" THEN [q EXCEPT !.st = "dd"] ELSE KeySep(q, t)
    [] q.st = "keysep"  -> KeySep(q, t)
    [] q.st = "valsep"  -> IF t = "|" THEN [q EXCEPT !.st = "type"] ELSE [q EXCEPT !.val = Append(q.val, t)]
    [] q.st = "type"    -> IF t = "c" THEN [q EXCEPT !.st = "attrs", !.typ = "counter"]
                           ELSE IF t = "g" THEN [q EXCEPT !.st = "attrs", !.typ = "gauge"]
                           ELSE IF t = "h" THEN [q EXCEPT !.st = "attrs", !.typ = "timer"]
                           ELSE IF t = "s" THEN [q EXCEPT !.st = "attrs", !.typ = "set"]
                           ELSE IF t = "m" THEN [q EXCEPT !.st = "typeM"]
                           ELSE Err(q)
    [] q.st = "typeM"   -> IF t = "s" THEN [q EXCEPT !.st = "attrs", !.typ = "timer"] ELSE Err(q)
    [] q.st = "attrs"   -> IF t = "|" THEN [q EXCEPT !.st = "attr0"] ELSE Err(q)
    [] q.st = "attr0"   -> IF t = "@" THEN [q EXCEPT !.st = "rate", !.cur = <<>>]
                           ELSE IF t = "#" THEN [q EXCEPT !.st = "tag", !.cur = <<>>]
                           ELSE [q EXCEPT !.st = "ignore"]            \* also for "|": the swallow
    [] q.st = "rate"    -> IF t = "|" THEN [q EXCEPT !.st = "attr0", !.rates = Append(q.rates, q.cur), !.cur = <<>>]
                           ELSE [q EXCEPT !.cur = Append(q.cur, t)]
    [] q.st = "tag"     -> IF t = "," THEN AddTag(q)
                           ELSE IF t = "|" THEN [AddTag(q) EXCEPT !.st = "attr0"]
                           ELSE [q EXCEPT !.cur = Append(q.cur, t)]
    [] q.st = "ignore"  -> IF t = "|" THEN [q EXCEPT !.st = "attr0"] ELSE q
    \* ---- events
    [] q.st = "dd"      -> IF t = "e" THEN [q EXCEPT !.st = "ev_open"] ELSE Err(q)
    [] q.st = "ev_open" -> IF t = "{" THEN [q EXCEPT !.st = "ev_n1"] ELSE Err(q)
    [] q.st = "ev_n1"   -> IF t \in Huge THEN [q EXCEPT !.n1 = Append(q.n1, "1"), !.hg = TRUE]
                           ELSE IF t \in Digits THEN [q EXCEPT !.n1 = Append(q.n1, t)]
                           ELSE IF q.n1 # <<>> /\ t = "," THEN [q EXCEPT !.st = "ev_n2"] ELSE Err(q)
    [] q.st = "ev_n2"   -> IF t \in Huge THEN [q EXCEPT !.n2 = Append(q.n2, "1"), !.hg = TRUE]
                           ELSE IF t \in Digits THEN [q EXCEPT !.n2 = Append(q.n2, t)]
                           ELSE IF q.n2 # <<>> /\ t = "}" THEN [q EXCEPT !.st = "ev_colon"] ELSE Err(q)
    [] q.st = "ev_colon" -> IF t # ":" THEN Err(q)
                            ELSE IF q.hg THEN [q EXCEPT !.st = "ev_hbody"]   \* lengths near 2^32 / 2^64: no prediction
                            ELSE IF DecVal(q.n1, 0) = 0 THEN [q EXCEPT !.st = "ev_sep"]
                            ELSE [q EXCEPT !.st = "ev_title", !.left = DecVal(q.n1, 0)]
    [] q.st = "ev_title" -> IF ByteLen(t) > q.left THEN AnyQ(q)
                            ELSE [q EXCEPT !.title = Append(q.title, t), !.left = q.left - ByteLen(t),
                                           !.st = IF q.left = ByteLen(t) THEN "ev_sep" ELSE "ev_title"]
    [] q.st = "ev_sep"  -> IF t # "|" THEN Err(q)
                           ELSE [q EXCEPT !.st = AfterBody(q, DecVal(q.n2, 0)), !.left = DecVal(q.n2, 0)]
    [] q.st = "ev_text" -> IF ByteLen(t) > q.left THEN AnyQ(q)
                           ELSE [q EXCEPT !.text = Append(q.text, IF t = Esc THEN "NL" ELSE t),
                                          !.left = q.left - ByteLen(t),
                                          !.st = IF q.left = ByteLen(t) THEN "ev_attrs" ELSE "ev_text"]
    [] q.st = "ev_attrs" -> IF t = "|" THEN [q EXCEPT !.st = "ev_attr0"] ELSE Err(q)
    [] q.st = "ev_attr0" -> IF t \in AttrKeys THEN [q EXCEPT !.st = "ev_assert", !.key = t]
                            ELSE IF t = "#" THEN [q EXCEPT !.st = "ev_tag", !.cur = <<>>]
                            ELSE IF ByteLen(t) > 1 THEN AnyQ(q)     \* first byte of a multi-byte token: not modelled
                            ELSE [q EXCEPT !.st = "ev_ignore"]
    [] q.st = "ev_assert" -> IF t # ":" THEN Err(q)
                             ELSE [q EXCEPT !.st = IF q.key = "d" THEN "ev_date" ELSE "ev_val", !.cur = <<>>]
    [] q.st = "ev_date" -> IF t \in Digits THEN [q EXCEPT !.cur = Append(q.cur, t)]
                           ELSE IF q.cur # <<>> /\ t = "|" THEN [q EXCEPT !.st = "ev_attr0", !.date = q.cur, !.cur = <<>>]
                           ELSE Err(q)
    [] q.st = "ev_val"  -> IF t = "|" THEN (LET c == Commit(q) IN IF c.st = "ERR" THEN c ELSE [c EXCEPT !.st = "ev_attr0"])
                           ELSE [q EXCEPT !.cur = Append(q.cur, t)]
    [] q.st = "ev_tag"  -> IF t = "," THEN AddTag(q)
                           ELSE IF t = "|" THEN [AddTag(q) EXCEPT !.st = "ev_attr0"]
                           ELSE [q EXCEPT !.cur = Append(q.cur, t)]
    [] q.st = "ev_ignore" -> IF t = "|" THEN [q EXCEPT !.st = "ev_attr0"] ELSE q
    [] OTHER -> q                                   \* ERR and ANY absorb

MetricOf(q) == [k |-> "metric", name |-> q.name, value |-> q.val, type |-> q.typ, rates |-> q.rates, tags |-> q.tags]
EventOf(q)  == [k |-> "event", title |-> q.title, text |-> q.text, date |-> q.date, host |-> q.host,
                aggkey |-> q.aggkey, stype |-> q.stype, pri |-> q.pri, alert |-> q.alert, tags |-> q.tags]

\* what Run returns when the input ends in control state q.st
Final(q) ==
  CASE q.st \in {"attrs", "attr0", "ignore"} -> MetricOf(q)
    [] q.st = "rate" -> MetricOf([q EXCEPT !.rates = Append(q.rates, q.cur)])
    [] q.st = "tag"  -> MetricOf(AddTag(q))
    [] q.st \in {"ev_attrs", "ev_attr0", "ev_ignore"} -> EventOf(q)
    [] q.st = "ev_date" -> IF q.cur = <<>> THEN Reject ELSE EventOf([q EXCEPT !.date = q.cur])
    [] q.st = "ev_val"  -> (LET c == Commit(q) IN IF c.st = "ERR" THEN Reject ELSE EventOf(c))
    [] q.st = "ev_tag"  -> EventOf(AddTag(q))
    [] q.st \in {"ANY", "ev_hbody"} -> [k |-> "any"]
    [] OTHER -> Reject        \* special, keysep, valsep, type, typeM, dd, ev_open .. ev_text, ev_assert, ERR

\* ---------------------------------------------------------------- I-level agrees with P-level
ToSetOfSeq(ss) == {ss[i] : i \in 1..Len(ss)}
Agree(p, f) ==
  CASE f.k = "any"    -> TRUE
    [] p.k = "unspec" -> (f.k = "metric" => f.name # <<>> /\ WellFormedTags(f.tags))
    [] p.k = "reject" -> f.k = "reject"
    [] p.k = "metric" -> /\ f.k = "metric" /\ f.name = p.name /\ f.value = p.value /\ f.type = p.type
                         /\ ToSetOfSeq(f.rates) = ToSetOfSeq(p.rates)
                         /\ (p.exact => f.rates = p.rates /\ f.tags = p.tags)
                         /\ f.name # <<>> /\ WellFormedTags(f.tags)
    [] p.k = "event"  -> f = p
=============================================================================
