--------------------------- MODULE EventBodyWrap ---------------------------
(* I-level detail of C03: the arithmetic of lexEventBody on a scaled-down machine word.
   The Go code holds len, pos, titleLen, textLen in uint32; Word is the modulus (2^32 in the code, a small
   power of two here so that TLC can enumerate every header).  SliceSafe is the P-level requirement: every index
   and slice bound the function uses lies inside the input.

   Wide = FALSE is the code before the fix (the sum titleLen+1+textLen wraps), for which TLC reports the
   counterexample reproduced on the real lexer (`_e{1,4294967294}:a|`); Wide = TRUE is the repaired comparison. *)
EXTENDS Naturals, TLC

CONSTANTS Word, Wide, MaxLen

VARIABLES len, pos, tl, xl, sepOk
vars == <<len, pos, tl, xl, sepOk>>

Init == /\ len \in 0..MaxLen /\ pos \in 0..MaxLen /\ pos <= len
        /\ tl \in 0..(Word - 1) /\ xl \in 0..(Word - 1)
        /\ sepOk \in BOOLEAN                  \* whether input[pos+tl] = '|' when that index exists
Next == UNCHANGED vars
Spec == Init /\ [][Next]_vars

Need == IF Wide THEN tl + 1 + xl ELSE (tl + 1 + xl) % Word
Enough == ~((len - pos) < Need)               \* the guard `if l.len-l.pos < ... { errNotEnoughData }`
\* after the guard: index pos+tl (computed in the machine word), then slices [pos : pos+tl], [pos+tl+1 : pos+tl+1+xl]
I1 == (pos + tl) % Word
P2 == (pos + tl + 1) % Word
E2 == (P2 + xl) % Word
SliceSafe == Enough =>
               /\ I1 < len                    \* l.input[l.pos+l.eventTitleLen]
               /\ (sepOk => /\ pos <= I1 /\ I1 <= len            \* title slice
                            /\ P2 <= E2 /\ E2 <= len)            \* text slice
=============================================================================
