------------------------------ MODULE NodeSched ------------------------------
(* R2 for X05: stimulus schedules for real node trackers sharing one Redis (update interval U = 2 units, expiry E = 5 units; one unit is
   half a second of the mock clock).  After each stimulus the driver lets the cluster come to rest and reads every picker.
     up t       start the tracker of node t (again, if it has run before)        cancel t    cancel its context and wait for Run to return
     mute t     from now on its publishes fail (it still hears the others)       unmute t
     adv d      the clock moves forward d units (1 = half an update interval, 2 = one)
   Only sensible schedules: up of a tracker that is not running, cancel / mute of one that is, unmute of a muted one.  Core: hand-written
   schedules for the situations that need many steps (a silent node expires everywhere, also from its own picker; a node that went silent,
   was cancelled unheard and expires; restart after a drop; three nodes with shifted tick phases). *)
EXTENDS Naturals, Sequences, FiniteSets, TLC, Json
CONSTANTS MaxLen
VARIABLES running, muted, sched
Nodes == {"a", "b", "c"}
S(o, t, d) == [op |-> o, t |-> t, d |-> d]
A(d) == S("adv", "", d)
Core == {
  \* a node last heard exactly one expiry interval before a tick of the observer (expiry is "later than", not "at")
  <<S("up", "a", 0), A(1), S("up", "b", 0), S("mute", "b", 0), A(1), A(2), A(2), A(2), A(1)>>,
  <<S("up", "b", 0), A(1), S("up", "c", 0), A(2), S("mute", "c", 0), A(2), A(1), A(2), A(2)>>,
  <<S("up", "a", 0), S("up", "b", 0), S("mute", "b", 0), A(2), A(2), A(1), A(1), A(2), A(2), S("unmute", "b", 0), A(2), A(1)>>,
  <<S("up", "a", 0), A(1), S("up", "b", 0), S("mute", "b", 0), S("cancel", "b", 0), A(2), A(2), A(2), A(1), S("up", "b", 0), A(2)>>,
  <<S("up", "a", 0), A(1), S("up", "b", 0), A(1), S("up", "c", 0), A(2), S("cancel", "a", 0), A(2), S("up", "a", 0), S("cancel", "c", 0), A(2), A(2), A(2)>>,
  <<S("up", "a", 0), S("mute", "a", 0), A(2), A(2), A(2), A(2), S("up", "b", 0), S("unmute", "a", 0), A(2), S("cancel", "a", 0), S("cancel", "b", 0)>>,
  <<S("up", "b", 0), S("up", "a", 0), S("up", "c", 0), S("mute", "c", 0), A(2), A(2), A(2), S("cancel", "c", 0), S("up", "c", 0), S("unmute", "c", 0), A(2), A(2)>>
}
ASSUME \A c \in Core : PrintT(<<"CASE", ToJson([sched |-> c])>>)
Init == running = {} /\ muted = {} /\ sched = <<>>
Next == /\ Len(sched) < MaxLen
        /\ \/ \E t \in Nodes \ running : running' = running \cup {t} /\ sched' = Append(sched, S("up", t, 0)) /\ UNCHANGED muted
           \/ \E t \in running : running' = running \ {t} /\ sched' = Append(sched, S("cancel", t, 0)) /\ UNCHANGED muted
           \/ \E t \in running \ muted : muted' = muted \cup {t} /\ sched' = Append(sched, S("mute", t, 0)) /\ UNCHANGED running
           \/ \E t \in muted : muted' = muted \ {t} /\ sched' = Append(sched, S("unmute", t, 0)) /\ UNCHANGED running
           \/ \E d \in {1, 2} : running # {} /\ sched' = Append(sched, A(d)) /\ UNCHANGED <<running, muted>>
Spec == Init /\ [][Next]_<<running, muted, sched>>
Emit == Len(sched) < MaxLen \/ PrintT(<<"CASE", ToJson([sched |-> sched])>>)
=============================================================================
