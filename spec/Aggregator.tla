------------------------------ MODULE Aggregator ------------------------------
(* C09 (and the history side of C04 / C01): MetricAggregator over histories of datapoints, clock advances and flushes.

   Environment events: D(s) a datapoint for series s (weight / value / member = its position in the history, so every
   datapoint is distinguishable), A advance the clock by one unit, F a flush (Flush; Process; Reset).
   Expiry[ty] in units, per type: negative, zero (never), positive.

   P-level (from the statement): per series  T = time of the last datapoint, gone = a flush happened more than Expiry
     after T (the series was still reported in that flush).  Report(F) = {s : T defined /\ ~gone}; values: counter = sum of
     weights since the previous flush, set = members since the previous flush, timer = values since the previous flush (count 0,
     no percentiles when idle), gauge = last value ever (datapoints of one
     instant: any of them, as C07 allows).
   I-level (aggregator.go): the map entry of a series carries ts (max over merged datapoints); ReceiveMap merges;
     Flush/Process report every entry present; Reset deletes entries with Expiry # 0 /\ now - ts > Expiry and zeroes the rest
     (gauges keep their value). *)
EXTENDS Integers, Sequences, FiniteSets, TLC, Json

CONSTANTS Series,          \* e.g. {"c", "g", "s", "t"}; the first letter is the type
          MaxLen, ExpirySets

\* "c2", "g2": a second series with the SAME NAME as "c" / "g" but another tag set (siblings under one name)
TypeOf(s) == CASE s \in {"c", "c2"} -> "counter" [] s \in {"g", "g2"} -> "gauge" [] s = "s" -> "set" [] OTHER -> "timer"

VARIABLES hist, now, exp, half,
          pT, pGone, pPend, pGauge,       \* P-level: last datapoint time, gone flag, ids since last flush, last id ever
          entry,                          \* I-level: series -> [ts, pend, gauge] for entries present in the map
          reports                         \* sequence (one per flush) of [p |-> P-level report, i |-> I-level report]
vars == <<hist, now, exp, half, pT, pGone, pPend, pGauge, entry, reports>>

\* half: datapoints carry a timestamp half a unit before the instant they are merged (the receive time of a datagram is earlier than its
\* arrival at the aggregator), so at a flush their age is the whole-unit difference plus one half
Init == /\ hist = <<>> /\ now = 0 /\ exp \in ExpirySets /\ half \in BOOLEAN
        /\ pT = [s \in {} |-> 0] /\ pGone = {} /\ pPend = [s \in Series |-> <<>>] /\ pGauge = [s \in Series |-> {}]
        /\ entry = <<>> /\ reports = <<>>

Id == Len(hist) + 1
Data(s) ==
  /\ hist' = Append(hist, s)
  /\ pT' = [x \in DOMAIN pT \cup {s} |-> IF x = s THEN now ELSE pT[x]]
  /\ pGone' = pGone \ {s}
  /\ pPend' = [pPend EXCEPT ![s] = Append(@, Id)]
  /\ pGauge' = [pGauge EXCEPT ![s] = IF s \in DOMAIN pT /\ pT[s] = now THEN @ \cup {Id} ELSE {Id}]   \* same instant: either (C07)
  /\ entry' = [x \in DOMAIN entry \cup {s} |->
                 IF x # s THEN entry[x]
                 ELSE IF s \in DOMAIN entry
                      THEN [ts |-> IF entry[s].ts < now THEN now ELSE entry[s].ts, pend |-> Append(entry[s].pend, Id),
                            gauge |-> IF entry[s].ts < now THEN Id ELSE entry[s].gauge]     \* MergeGauge: replaced only when strictly newer
                      ELSE [ts |-> now, pend |-> <<Id>>, gauge |-> Id]]
  /\ UNCHANGED <<now, exp, half, reports>>

Advance == /\ hist' = Append(hist, "A") /\ now' = now + 1
           /\ UNCHANGED <<exp, half, pT, pGone, pPend, pGauge, entry, reports>>

Expired(e, n, ts) == e # 0 /\ 2 * (n - ts) + (IF half THEN 1 ELSE 0) > 2 * e
Flush ==
  LET pRep == [s \in {x \in DOMAIN pT : x \notin pGone} |-> [pend |-> pPend[s], gauge |-> pGauge[s]]]
      iRep == [s \in DOMAIN entry |-> [pend |-> entry[s].pend, gauge |-> entry[s].gauge]]
  IN /\ hist' = Append(hist, "F")
     /\ reports' = Append(reports, [p |-> pRep, i |-> iRep])
     /\ pGone' = pGone \cup {s \in DOMAIN pT : Expired(exp[TypeOf(s)], now, pT[s])}
     /\ pPend' = [s \in Series |-> <<>>]
     /\ entry' = [s \in {x \in DOMAIN entry : ~Expired(exp[TypeOf(x)], now, entry[x].ts)} |-> [entry[s] EXCEPT !.pend = <<>>]]
     /\ UNCHANGED <<now, exp, half, pT, pGauge>>

Next == Len(hist) < MaxLen /\ (Advance \/ Flush \/ \E s \in Series : Data(s))
Spec == Init /\ [][Next]_vars

IAgreesWithP == \A k \in 1..Len(reports) :
  /\ DOMAIN reports[k].p = DOMAIN reports[k].i
  /\ \A s \in DOMAIN reports[k].p : reports[k].p[s].pend = reports[k].i[s].pend /\ reports[k].i[s].gauge \in reports[k].p[s].gauge

RepOut(r) == {[s |-> s, pend |-> r[s].pend, gauge |-> r[s].gauge] : s \in DOMAIN r}
Emit == (hist = <<>> \/ hist[Len(hist)] # "F") \/
        PrintT(<<"CASE", ToJson([hist |-> hist, exp |-> exp, half |-> half, reports |-> [k \in 1..Len(reports) |-> RepOut(reports[k].p)]])>>)
=============================================================================
