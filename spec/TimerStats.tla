------------------------------ MODULE TimerStats ------------------------------
(* C08 (and the arithmetic side of C04): what MetricAggregator.Flush reports for one timer.

   Values are small integers so every statistic is an exact integer or an exact fraction; the harness evaluates the
   fractions in float64 and compares with relative tolerance 1e-9.

   P-level (declarative, from the statement):
     Count = round(S), PerSecond = S / interval with S = sum of 1/rate (here: sum of integer inverse rates)
     Min, Max, Sum, SumSq, Mean = Sum/n, Median (doubled: Med2), population variance VarNum / n^2
     for percentile p:  k = round(|p| * n / 100)  (k = 1 when n = 1; omitted when k = 0; at an exact .5 both ranks allowed)
                        statistics of the k lowest (p > 0) or k highest (p < 0) values, boundary = k-th lowest / k-th highest
     histogram: per parsed bucket bound (unparsable items skipped, then truncated to the limit) and +Inf the number of
                values <= bound; nothing when the limit is 0; no summary statistics.
   I-level (transcription of aggregator.go Flush): sorted values, cumulative sums, the index expressions of the code with
     an InBounds predicate each; GuardKEqualsN models the repaired branch for k = n with p < 0 (before the fix the code
     evaluated cumulativeValues[n-k-1] = cumulativeValues[-1]). *)
EXTENDS Integers, Sequences, FiniteSets, TLC, Json

CONSTANT GuardKEqualsN

Abs(x) == IF x < 0 THEN -x ELSE x
RECURSIVE SumSeq(_)
SumSeq(s) == IF s = <<>> THEN 0 ELSE Head(s) + SumSeq(Tail(s))
Sq(s) == [i \in 1..Len(s) |-> s[i] * s[i]]
IsSorted(s) == \A i \in 1..(Len(s) - 1) : s[i] <= s[i + 1]

\* ---------------------------------------------------------------- P-level
\* vals: sorted sequence. Lowest(k) / Highest(k) as sub-sequences.
Lowest(vals, k)  == SubSeq(vals, 1, k)
Highest(vals, k) == SubSeq(vals, Len(vals) - k + 1, Len(vals))
\* ranks allowed for percentile p over n values
Ranks(p, n) == IF n = 1 THEN {1}
               ELSE LET x2 == 2 * Abs(p) * n          \* = 200 * (|p| n / 100)
                        k  == (x2 + 100) \div 200     \* floor(x + 1/2)
                    IN IF x2 % 200 = 100 THEN {k, k - 1} ELSE {k}
PctStats(vals, p, k) ==
  LET sel == IF p > 0 THEN Lowest(vals, k) ELSE Highest(vals, k)
  IN [k |-> k, sum |-> SumSeq(sel), sumsq |-> SumSeq(Sq(sel)),
      bound |-> IF p > 0 THEN sel[Len(sel)] ELSE sel[1]]
\* the set of allowed reports for percentile p: {} means "must be omitted"; a record with k = 0 stands for omission
PPct(vals, p) == {IF k = 0 THEN [k |-> 0, sum |-> 0, sumsq |-> 0, bound |-> 0] ELSE PctStats(vals, p, k) : k \in Ranks(p, Len(vals))}

PSummary(vals, invs) ==
  LET n == Len(vals) S == SumSeq(invs) IN
  IF n = 0 THEN [n |-> 0, cnt |-> 0, sum |-> 0, sumsq |-> 0, min |-> 0, max |-> 0, med2 |-> 0, varnum |-> 0]
  ELSE [n |-> n, cnt |-> S, sum |-> SumSeq(vals), sumsq |-> SumSeq(Sq(vals)), min |-> vals[1], max |-> vals[n],
        med2 |-> IF n % 2 = 0 THEN vals[n \div 2] + vals[n \div 2 + 1] ELSE 2 * vals[(n + 1) \div 2],
        varnum |-> n * SumSeq(Sq(vals)) - SumSeq(vals) * SumSeq(vals)]      \* variance = varnum / n^2

\* histogram: items = sequence of [ok |-> BOOLEAN, b |-> Int]; limit: Nat; returns [bounds |-> set of Int, counts]
RECURSIVE Parsed(_)
Parsed(items) == IF items = <<>> THEN <<>> ELSE (IF Head(items).ok THEN <<Head(items).b>> ELSE <<>>) \o Parsed(Tail(items))
PHist(vals, items, limit) ==
  IF limit = 0 THEN [none |-> TRUE, bounds |-> {}, counts |-> <<>>, inf |-> 0]
  ELSE LET ps == Parsed(items)
           kept == SubSeq(ps, 1, IF Len(ps) < limit THEN Len(ps) ELSE limit)
           bs == {kept[i] : i \in 1..Len(kept)}
       IN [none |-> FALSE, bounds |-> bs,
           counts |-> [b \in bs |-> Cardinality({i \in 1..Len(vals) : vals[i] <= b})], inf |-> Len(vals)]

\* ---------------------------------------------------------------- I-level: aggregator.go Flush, index by index (0-based like Go)
Cum(s) == [i \in 1..Len(s) |-> SumSeq(SubSeq(s, 1, i))]
\* InBounds(i, n): Go index i into a slice of length n
InBounds(i, n) == 0 <= i /\ i < n
IRank(p, n) == IF n > 1 THEN (2 * Abs(p) * n + 100) \div 200 ELSE n     \* int(round(|p|/100*n)); exact .5 rounds up
IPctInBounds(p, n) ==
  LET k == IRank(p, n) IN
  n <= 1 \/ k = 0 \/
  IF p > 0 THEN InBounds(k - 1, n)
  ELSE /\ InBounds(n - k, n)
       /\ InBounds(n - 1, n)
       /\ (IF GuardKEqualsN /\ k = n THEN TRUE ELSE InBounds(n - k - 1, n))
IPct(vals, p) ==
  LET n == Len(vals) k == IRank(p, n) cum == Cum(vals) cumsq == Cum(Sq(vals)) IN
  IF n = 1 THEN [k |-> 1, sum |-> vals[1], sumsq |-> vals[1] * vals[1], bound |-> vals[1]]
  ELSE IF k = 0 THEN [k |-> 0, sum |-> 0, sumsq |-> 0, bound |-> 0]
  ELSE IF p > 0 THEN [k |-> k, sum |-> cum[k], sumsq |-> cumsq[k], bound |-> vals[k]]
  ELSE [k |-> k, sum |-> cum[n] - (IF k = n THEN 0 ELSE cum[n - k]), sumsq |-> cumsq[n] - (IF k = n THEN 0 ELSE cumsq[n - k]),
        bound |-> vals[n - k + 1]]
=============================================================================
