-------------------------------- MODULE MCK8s --------------------------------
EXTENDS K8sProvider
N2 == {"p1", "p2"}
N3 == {"p1", "p2", "p3"}
IP1 == {"X"}
IP2 == {"X", "Y"}
\* restrict versions to keep the exhaustive run small: the constraint prunes after generation
=============================================================================
