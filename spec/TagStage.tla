------------------------------ MODULE TagStage ------------------------------
(* C10: pkg/statsd/handler_tags.go (uniqueFilterAndAddTags), filtering.go, matcher.go.

   Strings are tuples of one-character strings over a tiny alphabet; a pattern is [kind, neg, s]:
     exact   "s"          prefix  "s*"          (FILTERING.md)
     rpre    "regex:^s"   rsuf    "regex:s$"    rinf "regex:s"   (substring regular expressions, unanchored unless written)
     neg = TRUE adds a leading "!"
   P-level (declarative, from the statement):
     Satisfied(f, m)  match-metrics empty or some pattern matches the name; no exclude-metrics pattern matches it;
                      match-tags empty or some tag matches some pattern
     dropped  <=> some satisfied filter has drop-metric
     removed  D = tags of m matched by a drop-tags pattern of a satisfied filter
     tags out = (tags(m) \ D) \cup (static \ D), no duplicates;  source cleared <=> some satisfied filter has drop-host
   I-level: the ordered loop with its early `continue`s and early `return false`, the dropTags map, and
     uniqueTagsWithSeen's in-place swap-remove followed by appending unseen static tags. *)
EXTENDS Naturals, Sequences, FiniteSets, SequencesExt, TLC, Json
\* deviation switch (FALSE = the code as it is): an exclude-metrics hit ends the whole filter chain instead of skipping its own filter
\* (round-6 seeded change C10 m2; refuted by TLC on the "chain" pool)
CONSTANT BreakOnExclude

IsInfix(p, s) == \E i \in 0..(Len(s) - Len(p)) : SubSeq(s, i + 1, i + Len(p)) = p
Match(p, s) ==
  LET base == CASE p.kind = "exact"  -> s = p.s
                [] p.kind = "prefix" -> IsPrefix(p.s, s)
                [] p.kind = "rpre"   -> IsPrefix(p.s, s)
                [] p.kind = "rsuf"   -> IsSuffix(p.s, s)
                [] OTHER             -> IsInfix(p.s, s)
  IN base # p.neg
MatchAny(ps, s) == \E i \in 1..Len(ps) : Match(ps[i], s)

\* ---------------------------------------------------------------- P-level
Satisfied(f, m) ==
  /\ (f.mm # <<>> => MatchAny(f.mm, m.name))
  /\ ~MatchAny(f.ex, m.name)
  /\ (f.mt # <<>> => \E t \in ToSet(m.tags) : MatchAny(f.mt, t))
SatSet(fs, m) == {i \in 1..Len(fs) : Satisfied(fs[i], m)}
PDropped(fs, m) == \E i \in SatSet(fs, m) : fs[i].dm
PRemoved(fs, m) == {t \in ToSet(m.tags) : \E i \in SatSet(fs, m) : MatchAny(fs[i].dt, t)}
PTags(fs, static, m) == (ToSet(m.tags) \ PRemoved(fs, m)) \cup (ToSet(static) \ PRemoved(fs, m))
PHostCleared(fs, m) == \E i \in SatSet(fs, m) : fs[i].dh
PResult(fs, static, m) ==
  IF PDropped(fs, m) THEN [dropped |-> TRUE, tags |-> {}, hostCleared |-> FALSE]
  ELSE [dropped |-> FALSE, tags |-> PTags(fs, static, m), hostCleared |-> PHostCleared(fs, m)]

\* ---------------------------------------------------------------- I-level
\* uniqueTagsWithSeen(seen, t1, t2): swap-remove duplicates / seen tags from t1 in place, then append unseen tags of t2
RECURSIVE Scan(_, _, _, _)
Scan(seen, t1, idx, last) ==     \* idx, last 0-based as in Go; t1 as TLA sequence of length >= last
  IF idx >= last THEN [seen |-> seen, t1 |-> SubSeq(t1, 1, last)]
  ELSE LET tag == t1[idx + 1] IN
       IF tag \in seen THEN Scan(seen, [t1 EXCEPT ![idx + 1] = t1[last]], idx, last - 1)
       ELSE Scan(seen \cup {tag}, t1, idx + 1, last)
RECURSIVE AppendUnseen(_, _, _)
AppendUnseen(seen, t1, t2) == IF t2 = <<>> THEN t1
                              ELSE AppendUnseen(seen, IF Head(t2) \in seen THEN t1 ELSE Append(t1, Head(t2)), Tail(t2))
UniqueTagsWithSeen(seen, t1, t2) == LET r == Scan(seen, t1, 0, Len(t1)) IN AppendUnseen(r.seen, r.t1, t2)

RECURSIVE Loop(_, _, _, _, _)
Loop(fs, i, m, dropTags, host) ==
  IF i > Len(fs) THEN [dropped |-> FALSE, dropTags |-> dropTags, hostCleared |-> host]
  ELSE LET f == fs[i] IN
       IF Len(f.mm) > 0 /\ ~MatchAny(f.mm, m.name) THEN Loop(fs, i + 1, m, dropTags, host)
       ELSE IF MatchAny(f.ex, m.name) THEN (IF BreakOnExclude THEN [dropped |-> FALSE, dropTags |-> dropTags, hostCleared |-> host]
                                            ELSE Loop(fs, i + 1, m, dropTags, host))
       ELSE IF Len(f.mt) > 0 /\ ~(\E k \in 1..Len(m.tags) : MatchAny(f.mt, m.tags[k])) THEN Loop(fs, i + 1, m, dropTags, host)
       ELSE IF f.dm THEN [dropped |-> TRUE, dropTags |-> dropTags, hostCleared |-> host]
       ELSE Loop(fs, i + 1, m, dropTags \cup {t \in ToSet(m.tags) : MatchAny(f.dt, t)}, host \/ f.dh)
IResult(fs, static0, m) ==
  LET static == UniqueTagsWithSeen({}, static0, <<>>) IN       \* NewTagHandler de-duplicates the static tags once
  IF fs = <<>> THEN [dropped |-> FALSE, tags |-> UniqueTagsWithSeen({}, m.tags, static), hostCleared |-> FALSE]
  ELSE LET r == Loop(fs, 1, m, {}, FALSE) IN
       IF r.dropped THEN [dropped |-> TRUE, tags |-> <<>>, hostCleared |-> FALSE]
       ELSE [dropped |-> FALSE, tags |-> UniqueTagsWithSeen(r.dropTags, m.tags, static), hostCleared |-> r.hostCleared]

NoDup(s) == \A i, j \in 1..Len(s) : i # j => s[i] # s[j]
Agree(fs, static, m) ==
  LET p == PResult(fs, static, m) i == IResult(fs, static, m) IN
  /\ p.dropped = i.dropped
  /\ (~p.dropped => ToSet(i.tags) = p.tags /\ NoDup(i.tags) /\ i.hostCleared = p.hostCleared)
=============================================================================
