------------------------------ MODULE CloudSched ------------------------------
(* R2 for C11: stimulus schedules for the real CloudHandler. After each stimulus the driver waits for quiescence.
     m src / e src    a metric batch / an event from source src ("" = no source) arrives
     take             the lookup service takes one pending request from IpSink (if the stage offers one)
     answer res       the service answers the oldest taken request with res ("pos" | "neg"); it caches the result first
     emit             a flush notification: the stage publishes its gauges
     hold / release   the next handler blocks inside DispatchMetricMap / DispatchEvent (after it has been handed the item) /
                      lets go: forwarding goroutines stay in flight while further items arrive (CloudHandler.tla's Deliver
                      taken late)
     evict            the instance cache forgets everything (entries expire / are evicted in the real providers)
   answer "pos0" is a successful lookup of an instance that has no tags.
   answer "err" is a failed lookup that leaves the cache holding an (older) instance for the source -- a cache that "never forgets good
   data on error" (C12) answers nil and keeps what it had: the items that waited leave unchanged all the same (round-5 seeded change).
   The driver's epilogue serves every outstanding lookup, then expects the stage to be empty. *)
EXTENDS Naturals, Sequences, TLC, Json
CONSTANTS MaxLen, Sources
VARIABLE sched
Ops == {[op |-> o, src |-> s, res |-> ""] : o \in {"m", "e"}, s \in Sources \cup {""}} \cup
       {[op |-> "mall", src |-> "", res |-> ""]} \cup       \* one batch with datapoints of every source and of no source
       {[op |-> o, src |-> "", res |-> ""] : o \in {"take", "emit", "hold", "release", "evict"}} \cup
       {[op |-> "answer", src |-> "", res |-> r] : r \in {"pos", "neg", "pos0", "err"}}
O(o, src, r) == [op |-> o, src |-> src, res |-> r]
\* hand-written schedules for the situations the statement names and that need more steps than the exhaustive bound:
\* items of a source arriving while the forwarding of its released items is still in flight and the cache has forgotten it
Core == {
  <<O("e", "x", ""), O("e", "x", ""), O("take", "", ""), O("hold", "", ""), O("answer", "", "pos"), O("evict", "", ""),
    O("e", "x", ""), O("e", "x", ""), O("release", "", ""), O("take", "", ""), O("answer", "", "pos")>>,
  <<O("m", "x", ""), O("e", "x", ""), O("m", "x", ""), O("take", "", ""), O("hold", "", ""), O("answer", "", "neg"), O("evict", "", ""),
    O("m", "x", ""), O("e", "x", ""), O("emit", "", ""), O("release", "", ""), O("take", "", ""), O("answer", "", "pos0"), O("emit", "", "")>>,
  <<O("e", "x", ""), O("m", "y", ""), O("e", "y", ""), O("e", "x", ""), O("take", "", ""), O("take", "", ""), O("hold", "", ""),
    O("answer", "", "pos"), O("answer", "", "pos"), O("evict", "", ""), O("e", "y", ""), O("e", "x", ""), O("e", "x", ""), O("release", "", "")>>
}
ASSUME \A c \in Core : PrintT(<<"CASE", ToJson([sched |-> c])>>)
Init == sched = <<>>
Next == Len(sched) < MaxLen /\ \E o \in Ops : sched' = Append(sched, o)
Spec == Init /\ [][Next]_sched
Emit == Len(sched) < 2 \/ PrintT(<<"CASE", ToJson([sched |-> sched])>>)
=============================================================================
