----------------------------- MODULE AlignedProp -----------------------------
(* P-level monitor for C18, from the statement; integer time.
     PStart(s, i, o)   aligned flushing starts at clock time s with interval i and offset o
     PClock(t)         the clock reads t and the ticker / flusher have finished reacting (quiescent)
     PTick(v, clk)     a tick value v is delivered to the consumer while the clock reads clk
     PFlush(t, delta, exact, clk)   the flusher invokes the aggregators: t = the flush time (the delivered tick; with exact = TRUE
                       also the clock reading at the invocation, when time moves without jumps), delta = the elapsed time
                       passed to Aggregator.Flush
   Clauses: Aligned ((t - o) mod i = 0), NotInTheFuture (t <= clock reading; t = clock reading when exact), Increasing, FirstWithinOneInterval (once the clock has reached s + i and the
   consumer was ready, a tick / flush at or before s + i exists), DeltaMultiple (every flush after the first reports a
   positive multiple of i).  How many boundaries a slow consumer misses is not constrained. *)
EXTENDS Integers, Sequences

VARIABLES cfg, last, nflush, ready, bad
pvars == <<cfg, last, nflush, ready, bad>>
PInit == cfg = [s |-> 0, i |-> 1, o |-> 0] /\ last = -1 /\ nflush = 0 /\ ready = TRUE /\ bad = ""
Latch(v) == bad' = IF bad # "" THEN bad ELSE v

PStart(s, i, o) == cfg' = [s |-> s, i |-> i, o |-> o] /\ last' = -1 /\ nflush' = 0 /\ ready' = TRUE /\ UNCHANGED bad
AlignedAt(t) == (t - cfg.o) % cfg.i = 0
PTick(v, clk) ==
  /\ Latch(IF ~AlignedAt(v) THEN "Aligned"
           ELSE IF v > clk THEN "NotInTheFuture"
           ELSE IF last # -1 /\ v <= last THEN "Increasing"
           ELSE IF last = -1 /\ v > cfg.s + cfg.i THEN "FirstWithinOneInterval"
           ELSE "")
  /\ last' = v /\ UNCHANGED <<cfg, nflush, ready>>
\* the consumer was not taking ticks for a while: the first-tick deadline is only claimed for a ready consumer
PNotReady == ready' = FALSE /\ UNCHANGED <<cfg, last, nflush, bad>>
PClock(t) ==
  /\ Latch(IF ready /\ last = -1 /\ t >= cfg.s + cfg.i THEN "FirstWithinOneInterval(no tick although the clock passed s+i)" ELSE "")
  /\ UNCHANGED <<cfg, last, nflush, ready>>
\* exact = FALSE: the invocation was late (the flusher was still busy when the tick fired), so t is not the flush time; it is then
\* reconstructed as previous flush time + delta (delta is by definition the difference of the two flush times)
PFlush(t, delta, exact, clk) ==
  LET ft == IF exact THEN t ELSE IF last # -1 THEN last + delta ELSE -1 IN
  /\ Latch(IF ft = -1 THEN ""
           ELSE IF ~AlignedAt(ft) THEN "Aligned"
           ELSE IF ft > clk THEN "NotInTheFuture"
           ELSE IF last # -1 /\ ft <= last THEN "Increasing"
           ELSE IF last = -1 /\ nflush = 0 /\ ft > cfg.s + cfg.i THEN "FirstWithinOneInterval"
           ELSE IF nflush >= 1 /\ (delta <= 0 \/ delta % cfg.i # 0) THEN "DeltaMultiple"
           ELSE IF nflush >= 1 /\ last # -1 /\ delta # ft - last THEN "DeltaMultiple(not the time since the previous flush)"
           ELSE "")
  /\ last' = ft /\ nflush' = nflush + 1 /\ UNCHANGED <<cfg, ready>>
\* only the elapsed time is observable (clock jumps: the reading at the invocation is not the flush time)
PFlushDelta(delta) ==
  /\ Latch(IF nflush >= 1 /\ (delta <= 0 \/ delta % cfg.i # 0) THEN "DeltaMultiple" ELSE "")
  /\ nflush' = nflush + 1 /\ UNCHANGED <<cfg, last, ready>>
PropertyHolds == bad = ""
=============================================================================
