------------------------------ MODULE EventSched ------------------------------
(* R2 for C19: configurations and stimulus schedules for the event path, and the event lines with the fields the documented
   grammar gives them (Grammar!PLine), which the harness compares at every backend.
   Configuration: mode "standalone" (parser -> cloud stage -> tag stage (static tag) -> BackendHandler with B recording backends and
   max-concurrent-events tokens) or "forwarder" (HTTP ingestion -> forwarder -> one upstream, counted as backend 1).
     ev k s       a datagram with event line k from sender address s         evhttp k    the event of line k POSTed to /v2/event
     known s r    the instance cache learns s beforehand (r = pos | neg)     take / answer r   the lookup service, as in CloudSched
     hold b / release b   backend b's SendEvent blocks (it honours its context) / continues
     upfail       (forwarder) the upstream answers the next event POST with 503 after it has read the body; the forwarder retries
     evsp k s     like ev, the line ENDING in one more tag whose value ends in a blank (w:x ): the line's last byte is payload like any other
     evbad k s    like ev, the line carrying one more tag AFTER its own, with a byte that is not UTF-8 (o:Jos<e9>): every other field and
                  tag is as before; the odd tag arrives as it was sent (standalone) or with U+FFFD for the byte (forwarder: protobuf)
     bfail b      backend b's next SendEvent returns an error of its own (a 5xx, not a context error): later events still reach it
     evict s      the instance cache forgets s (idle eviction): the next event from s needs a lookup again
     refresh s    the instance cache announces what it holds for s once more, unasked (its periodic refresh)
   cfg.ih: the parser runs with ignore-host (which concerns metrics: an event keeps its sender address and its host: tag)
     wait         WaitForEvents is called (it returns when it returns) *)
EXTENDS Grammar, TLC, Json
CONSTANTS MaxLen
VARIABLES cfg, sched
Lines == <<
  <<"_", "e", "{", "1", ",", "1", "}", ":", "a", "|", "b">>,
  <<"_", "e", "{", "2", ",", "3", "}", ":", "a", "b", "|", "c", Esc, "|", "d", ":", "1", "2", "3", "|", "h", ":", "h", "h", "|", "k", ":", "k",
    "|", "p", ":", "low", "|", "s", ":", "s", "s", "|", "t", ":", "error", "|", "#", "a", ":", "b", ",", "c">>,
  <<"_", "e", "{", "1", ",", "0", "}", ":", "|", "|", "|", "t", ":", "warning", "|", "#", "b">>,
  <<"_", "e", "{", "0", ",", "2", "}", ":", "|", Esc, "|", "p", ":", "normal", "|", "t", ":", "success">>,
  <<"_", "e", "{", "1", ",", "1", "}", ":", "a", "|", "b", "|", "#", "h", "o", "s", "t", ":", "w", ",", "a", ":", "b">>,      \* an event with a host: tag
  <<"_", "e", "{", "3", ",", "1", "}", ":", "a", Esc, "|", "b">>,                       \* backslash-n in the TITLE: two bytes that stay two bytes
  \* characters of more than one byte in title and text: the header counts BYTES (title 3 = a + one two-byte character, text 3 = one + b)
  <<"_", "e", "{", "3", ",", "3", "}", ":", "a", "U2", "|", "U2", "b", "|", "#", "a", ":", "b">>
>>
ASSUME \A i \in 1..Len(Lines) : PLine(Lines[i]).k = "event"
Cfgs == {[mode |-> "standalone", b |-> b, tokens |-> t, ih |-> ih] : b \in {0, 1, 2}, t \in {1, 2}, ih \in BOOLEAN}
        \cup {[mode |-> "forwarder", b |-> 1, tokens |-> 1, ih |-> FALSE]}
O(op, k, s) == [op |-> op, k |-> k, s |-> s]
Ops(c) == IF c.mode = "forwarder" THEN {O("evhttp", k, "") : k \in 1..Len(Lines)} \cup {O("wait", 0, ""), O("upfail", 0, ""), O("ev", 2, "x"), O("ev", 6, "x"), O("evbad", 5, "x"), O("evsp", 1, "x")}
          ELSE {O("ev", k, s) : k \in {1, 2}, s \in {"x", "y"}} \cup {O("ev", 3, "x"), O("ev", 4, "y"), O("ev", 5, "x"), O("evhttp", 2, "")} \cup
               {O("known", 0, "x:pos"), O("known", 0, "y:neg"), O("take", 0, ""), O("answer", 0, "pos"), O("answer", 0, "neg"), O("wait", 0, "")} \cup
               {O("hold", b, "") : b \in 1..c.b} \cup {O("release", b, "") : b \in 1..c.b} \cup {O("bfail", b, "") : b \in 1..c.b} \cup
               {O("evbad", 5, "y"), O("evict", 0, "x"), O("refresh", 0, "x"), O("ev", 6, "y"), O("evsp", 2, "y")}
Init == cfg \in Cfgs /\ sched = <<>>
Next == Len(sched) < MaxLen /\ \E o \in Ops(cfg) : sched' = Append(sched, o) /\ UNCHANGED cfg
Spec == Init /\ [][Next]_<<cfg, sched>>
Core == {
  [cfg |-> [mode |-> "standalone", b |-> 2, tokens |-> 1, ih |-> FALSE], sched |-> <<O("known", 0, "x:pos"), O("ev", 7, "x"), O("ev", 1, "x"), O("ev", 7, "y"), O("wait", 0, "")>>],
  [cfg |-> [mode |-> "forwarder", b |-> 1, tokens |-> 1, ih |-> FALSE], sched |-> <<O("ev", 7, "x"), O("evhttp", 7, ""), O("wait", 0, "")>>],
  [cfg |-> [mode |-> "standalone", b |-> 1, tokens |-> 1, ih |-> FALSE], sched |-> <<O("known", 0, "x:neg"), O("ev", 6, "x"), O("evsp", 2, "x"), O("evsp", 1, "x"), O("wait", 0, "")>>],
  [cfg |-> [mode |-> "forwarder", b |-> 1, tokens |-> 1, ih |-> FALSE], sched |-> <<O("ev", 6, "x"), O("evsp", 1, "x"), O("wait", 0, "")>>],
  [cfg |-> [mode |-> "forwarder", b |-> 1, tokens |-> 1, ih |-> FALSE], sched |-> <<O("evbad", 5, "x"), O("ev", 2, "x"), O("wait", 0, "")>>],
  [cfg |-> [mode |-> "standalone", b |-> 2, tokens |-> 1, ih |-> FALSE],
   sched |-> <<O("known", 0, "x:pos"), O("bfail", 1, ""), O("ev", 1, "x"), O("bfail", 2, ""), O("ev", 2, "x"), O("evbad", 5, "x"), O("wait", 0, "")>>],
  [cfg |-> [mode |-> "standalone", b |-> 1, tokens |-> 2, ih |-> FALSE],
   sched |-> <<O("ev", 1, "x"), O("take", 0, ""), O("answer", 0, "pos"), O("evict", 0, "x"), O("ev", 2, "x"), O("wait", 0, "")>>],
  [cfg |-> [mode |-> "standalone", b |-> 1, tokens |-> 1, ih |-> FALSE],
   sched |-> <<O("ev", 1, "x"), O("take", 0, ""), O("answer", 0, "pos"), O("refresh", 0, "x"), O("ev", 2, "x"), O("refresh", 0, "x")>>],
  [cfg |-> [mode |-> "forwarder", b |-> 1, tokens |-> 1, ih |-> FALSE],
   sched |-> <<O("upfail", 0, ""), O("evhttp", 2, ""), O("evhttp", 1, ""), O("wait", 0, "")>>],
  [cfg |-> [mode |-> "standalone", b |-> 1, tokens |-> 1, ih |-> TRUE],
   sched |-> <<O("ev", 5, "x"), O("take", 0, ""), O("answer", 0, "pos"), O("ev", 5, "x"), O("ev", 1, "y")>>],
  [cfg |-> [mode |-> "standalone", b |-> 2, tokens |-> 1, ih |-> FALSE],
   sched |-> <<O("ev", 1, "x"), O("ev", 2, "x"), O("wait", 0, ""), O("take", 0, ""), O("hold", 2, ""), O("answer", 0, "pos"), O("ev", 3, "x"), O("release", 2, "")>>],
  [cfg |-> [mode |-> "standalone", b |-> 2, tokens |-> 2, ih |-> FALSE],
   sched |-> <<O("known", 0, "x:pos"), O("hold", 1, ""), O("ev", 2, "x"), O("ev", 1, "y"), O("wait", 0, ""), O("take", 0, ""), O("release", 1, ""), O("answer", 0, "neg")>>]
}
ASSUME \A c \in Core : PrintT(<<"CASE", ToJson([cfg |-> c.cfg, sched |-> c.sched, lines |-> [i \in 1..Len(Lines) |-> [toks |-> Lines[i], exp |-> PLine(Lines[i])]]])>>)
Emit == Len(sched) < MaxLen \/ PrintT(<<"CASE", ToJson([cfg |-> cfg, sched |-> sched, lines |-> [i \in 1..Len(Lines) |-> [toks |-> Lines[i], exp |-> PLine(Lines[i])]]])>>)
=============================================================================
