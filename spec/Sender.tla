-------------------------------- MODULE Sender --------------------------------
(* I-level for C16: pkg/backends/sender/sender.go (Run / innerRun / cleanup), the connection-oriented transport shared by the
   graphite and statsdaemon backends. One pc value per place where the goroutine can wait:
     "dial"      ConnFactory() is about to be called (environment: succeeds or fails)
     "failwait"  the select in the failure loop: ctx.Done / <-sink / <-streamCancel / <-timer.C
     "idle"      innerRun waiting for a stream (ctx.Done / <-s.Sink)
     "write"     innerRun writing the next buffer of the held stream (environment: write succeeds or fails)
     "end"       Run has returned (deferred callback, cleanup)
   Variables of the Go code kept by name: stream (0 = nil), errs (non-empty?), sink (armed?), streamCancel (whose Done channel it
   holds; 0 = nil), streamCount.
   ClearStale = FALSE is the code as found: `sink` and `streamCancel` are only ever SET in the failure loop, so they outlive the
   situation they were set for:
     * streamCancel still holds the Done() of a stream that was answered long ago; when that context is cancelled while the
       sender sits in the failure loop WITHOUT a stream, `stream.Cb(...)` dereferences nil            (panic)
     * sink stays armed from a failure period without a stream; in a later failure period WITH a held stream the arm
       `case st := <-sink` takes a second stream and overwrites the held one, whose callback is then never invoked
   ClearStale = TRUE re-derives both from `stream` on every iteration (the repair).
   Composed with the CompletionProp monitor. *)
EXTENDS Naturals, Sequences, FiniteSets, TLC

CONSTANTS NStreams, MaxPerConn, MaxFaults, ClearStale, BufsOf     \* BufsOf: stream id -> number of buffers

VARIABLES pc, stream, errs, sinkArmed, cancelArmed, count, queue, left, cancelled, runCancelled, nextStream, faults, timerSet,
          reqs, cbs, rets, lastOk, bad   \* rets: the monitor's record of returned calls; the model starts at the queue, where a call has returned
Prop == INSTANCE CompletionProp
ivars == <<pc, stream, errs, sinkArmed, cancelArmed, count, queue, left, cancelled, runCancelled, nextStream, faults, timerSet>>
vars == <<ivars, reqs, cbs, rets, lastOk, bad>>
MonUnch == UNCHANGED <<reqs, cbs, rets, lastOk, bad>>

Init == /\ pc = "dial" /\ stream = 0 /\ errs = FALSE /\ sinkArmed = FALSE /\ cancelArmed = 0 /\ count = 0 /\ queue = <<>>
        /\ left = [s \in 1..NStreams |-> BufsOf[s]] /\ cancelled = {} /\ runCancelled = FALSE /\ nextStream = 1 /\ faults = 0 /\ timerSet = FALSE
        /\ Prop!PInit

\* ---- environment
Enqueue == /\ nextStream <= NStreams /\ Len(queue) < 10 /\ pc # "end"
           /\ queue' = Append(queue, nextStream) /\ nextStream' = nextStream + 1
           /\ Prop!PReq(nextStream)
           /\ UNCHANGED <<pc, stream, errs, sinkArmed, cancelArmed, count, left, cancelled, runCancelled, faults, timerSet>>
CancelStream(s) == /\ s < nextStream /\ s \notin cancelled /\ cancelled' = cancelled \cup {s}
                   /\ UNCHANGED <<pc, stream, errs, sinkArmed, cancelArmed, count, queue, left, runCancelled, nextStream, faults, timerSet>> /\ MonUnch
CancelRun == /\ ~runCancelled /\ runCancelled' = TRUE
             /\ UNCHANGED <<pc, stream, errs, sinkArmed, cancelArmed, count, queue, left, cancelled, nextStream, faults, timerSet>> /\ MonUnch

\* ---- Run
DialOk == /\ pc = "dial" /\ pc' = (IF stream = 0 THEN "idle" ELSE "write") /\ count' = 0
          /\ UNCHANGED <<stream, errs, sinkArmed, cancelArmed, queue, left, cancelled, runCancelled, nextStream, faults, timerSet>> /\ MonUnch
\* failure: create the timer, enter the loop; (re)arm at the top of every iteration
Arm(st) == IF ClearStale THEN <<st = 0, st>>
           ELSE <<IF st = 0 THEN TRUE ELSE sinkArmed, IF st = 0 THEN cancelArmed ELSE st>>
DialFail == /\ pc = "dial" /\ faults < MaxFaults /\ faults' = faults + 1
            /\ pc' = "failwait" /\ timerSet' = TRUE
            /\ sinkArmed' = Arm(stream)[1] /\ cancelArmed' = Arm(stream)[2]
            /\ UNCHANGED <<stream, errs, count, queue, left, cancelled, runCancelled, nextStream>> /\ MonUnch
FailTakeStream == /\ pc = "failwait" /\ sinkArmed /\ queue # <<>>
                  /\ stream' = Head(queue) /\ queue' = Tail(queue)            \* overwrites whatever was held
                  /\ sinkArmed' = Arm(Head(queue))[1] /\ cancelArmed' = Arm(Head(queue))[2]
                  /\ UNCHANGED <<pc, errs, count, left, cancelled, runCancelled, nextStream, faults, timerSet>> /\ MonUnch
FailStreamCancelled ==
  /\ pc = "failwait" /\ cancelArmed # 0 /\ cancelArmed \in cancelled
  /\ IF stream = 0 THEN Prop!PPanic /\ pc' = "end" /\ UNCHANGED <<stream, errs, sinkArmed, cancelArmed>>       \* nil dereference
     ELSE /\ Prop!PCb(stream, TRUE) /\ stream' = 0 /\ errs' = FALSE /\ pc' = pc
          /\ sinkArmed' = Arm(0)[1] /\ cancelArmed' = IF ClearStale THEN 0 ELSE 0        \* the code sets streamCancel = nil here
  /\ UNCHANGED <<count, queue, left, cancelled, runCancelled, nextStream, faults, timerSet>>
FailTimer == /\ pc = "failwait" /\ timerSet /\ pc' = "dial" /\ timerSet' = FALSE
             /\ UNCHANGED <<stream, errs, sinkArmed, cancelArmed, count, queue, left, cancelled, runCancelled, nextStream, faults>> /\ MonUnch
\* return from Run: deferred callback for a held stream, then cleanup answers everything still queued
Finish(e) == /\ pc' = "end"
             /\ IF stream # 0 THEN Prop!PCb(stream, TRUE) ELSE MonUnch
             /\ stream' = 0 /\ errs' = e
FailRunCancelled == /\ pc = "failwait" /\ runCancelled /\ Finish(TRUE)
                    /\ UNCHANGED <<sinkArmed, cancelArmed, count, queue, left, cancelled, runCancelled, nextStream, faults, timerSet>>
\* ---- innerRun
IdleTake == /\ pc = "idle" /\ queue # <<>> /\ stream' = Head(queue) /\ queue' = Tail(queue) /\ pc' = "write"
            /\ UNCHANGED <<errs, sinkArmed, cancelArmed, count, left, cancelled, runCancelled, nextStream, faults, timerSet>> /\ MonUnch
IdleRunCancelled == /\ pc = "idle" /\ runCancelled /\ Finish(TRUE)
                    /\ UNCHANGED <<sinkArmed, cancelArmed, count, queue, left, cancelled, runCancelled, nextStream, faults, timerSet>>
\* all buffers written: callback with the errors collected so far, next stream or reconnect after MaxPerConn streams
StreamDone == /\ pc = "write" /\ left[stream] = 0
              /\ Prop!PCb(stream, errs) /\ stream' = 0 /\ errs' = FALSE /\ count' = count + 1
              /\ pc' = IF count + 1 >= MaxPerConn THEN "dial" ELSE "idle"
              /\ UNCHANGED <<sinkArmed, cancelArmed, queue, left, cancelled, runCancelled, nextStream, faults, timerSet>>
WriteOk == /\ pc = "write" /\ left[stream] > 0 /\ left' = [left EXCEPT ![stream] = @ - 1]
           /\ Prop!PAttempt(stream, left[stream], TRUE)
           /\ UNCHANGED <<pc, stream, errs, sinkArmed, cancelArmed, count, queue, cancelled, runCancelled, nextStream, faults, timerSet>>
\* a failed write: the buffer is gone (returned to the pool), the stream is kept, errs records it, reconnect
WriteFail == /\ pc = "write" /\ left[stream] > 0 /\ faults < MaxFaults /\ faults' = faults + 1
             /\ left' = [left EXCEPT ![stream] = @ - 1] /\ errs' = TRUE /\ pc' = "dial"
             /\ Prop!PAttempt(stream, left[stream], FALSE)
             /\ UNCHANGED <<stream, sinkArmed, cancelArmed, count, queue, cancelled, runCancelled, nextStream, timerSet>>
\* cleanup: close(s.Sink); every queued stream is answered with ctx.Err()
CleanupOne == /\ pc = "end" /\ queue # <<>> /\ bad # "NoPanic"
              /\ Prop!PCb(Head(queue), TRUE) /\ queue' = Tail(queue)
              /\ UNCHANGED <<pc, stream, errs, sinkArmed, cancelArmed, count, left, cancelled, runCancelled, nextStream, faults, timerSet>>

Next == \/ Enqueue \/ CancelRun \/ \E s \in 1..NStreams : CancelStream(s)
        \/ DialOk \/ DialFail \/ FailTakeStream \/ FailStreamCancelled \/ FailTimer \/ FailRunCancelled
        \/ IdleTake \/ IdleRunCancelled \/ StreamDone \/ WriteOk \/ WriteFail \/ CleanupOne
Spec == Init /\ [][Next]_vars

MonitorQuiet == bad = ""
\* at rest after everything was issued and the run was cancelled, or with a healthy connection and an empty queue: all answered
AtRest == \/ (pc = "end" /\ queue = <<>>)
          \/ (pc = "idle" /\ queue = <<>> /\ nextStream > NStreams)
AllAnswered == AtRest => reqs \subseteq cbs
=============================================================================
