----------------------------- MODULE AlignedTrace -----------------------------
EXTENDS AlignedProp, TLC, TLCExt, Json, IOUtils
Log == ndJsonDeserialize(IOEnv.VERIF_TRACE)
VARIABLE l
tvars == <<cfg, last, nflush, ready, bad, l>>
TInit == TLCSet(1, 0) /\ PInit /\ l = 1
Ev(e) == l <= Len(Log) /\ Log[l].ev = e /\ l' = l + 1
TStart == Ev("start") /\ PStart(Log[l].s, Log[l].i, Log[l].o)
TTick  == Ev("tick") /\ PTick(Log[l].v, Log[l].clk)
TClock == Ev("clock") /\ PClock(Log[l].t)
TFlush == Ev("flush") /\ PFlush(Log[l].t, Log[l].delta, Log[l].exact, Log[l].clk)
TFlushD == Ev("flushdelta") /\ PFlushDelta(Log[l].delta)
TNotReady == Ev("notready") /\ PNotReady
TSkip  == l <= Len(Log) /\ Log[l].ev \notin {"start", "tick", "clock", "flush", "flushdelta", "notready"} /\ l' = l + 1 /\ UNCHANGED pvars
TNext == TStart \/ TTick \/ TClock \/ TFlush \/ TFlushD \/ TNotReady \/ TSkip
TSpec == TInit /\ [][TNext]_tvars
HighWater == TLCSet(1, IF l > TLCGet(1) THEN l ELSE TLCGet(1))
Accepted == TLCGet(1) = Len(Log) + 1
=============================================================================
