----------------------------- MODULE MCTagStage -----------------------------
(* R1 + R2 for C10: enumerate (filter list, static tags, metric) and check I-level = P-level; print cases. *)
EXTENDS TagStage

CONSTANTS MaxFilters, PoolKind      \* "small": 5 patterns, exhaustive; "full": 12 patterns (use -simulate)

P(kind, neg, s) == [kind |-> kind, neg |-> neg, s |-> s]
T1 == <<"a", ":", "b">>
T2 == <<"a", ":", "c">>
T3 == <<"b">>
T4 == <<"c", ":", "b">>
SmallPats == {P("exact", FALSE, <<"a", "b">>), P("prefix", FALSE, <<"a">>), P("exact", TRUE, <<"a", ":", "b">>),
              P("rinf", FALSE, <<"b">>), P("prefix", TRUE, <<"a", ":">>)}
FullPats == SmallPats \cup {P("prefix", FALSE, <<>>), P("exact", TRUE, <<>>), P("rpre", FALSE, <<"a">>), P("rsuf", FALSE, <<"c">>),
                            P("rinf", TRUE, <<":">>), P("rsuf", TRUE, <<"b">>), P("exact", FALSE, <<"a", ":", "c">>)}
Pats == IF PoolKind = "full" THEN FullPats ELSE SmallPats
PatLists == {<<>>} \cup {<<p>> : p \in Pats} \cup (IF PoolKind = "full" THEN {<<p, q>> : p, q \in SmallPats} ELSE {})
TagPats == {<<>>, <<P("exact", FALSE, T1)>>, <<P("prefix", FALSE, <<"a", ":">>)>>, <<P("exact", TRUE, T3)>>, <<P("rinf", FALSE, <<"c">>)>>}
\* "pairs": two filters that every name satisfies, so that their interplay through tags is enumerated completely
\* "chain": filters that every name satisfies as far as match-metrics goes, with or without an exclude list that the names hit or miss:
\* what an excluded filter does to the filters after it is enumerated completely
ExPats == {<<>>, <<P("prefix", FALSE, <<"a">>)>>, <<P("exact", FALSE, <<"b", "a">>)>>}
Filters == IF PoolKind = "chain" THEN [mm : {<<>>}, ex : ExPats, mt : {<<>>}, dt : TagPats, dm : BOOLEAN, dh : BOOLEAN]
           ELSE IF PoolKind = "pairs" THEN [mm : {<<>>}, ex : {<<>>}, mt : TagPats, dt : TagPats, dm : BOOLEAN, dh : BOOLEAN]
           ELSE [mm : PatLists, ex : PatLists, mt : PatLists, dt : PatLists, dm : BOOLEAN, dh : BOOLEAN]

Names == IF PoolKind = "pairs" THEN {<<"a", "b">>} ELSE IF PoolKind = "chain" THEN {<<"a", "b">>, <<"b", "a">>} ELSE {<<"a", "b">>, <<"a", "b", "c">>, <<"b", "a">>}
TagLists == {<<>>, <<T1>>, <<T3>>, <<T1, T2>>, <<T2, T1, T2>>, <<T1, T3, T4>>, <<T3, T3>>, <<T4, T2, T3, T1>>}
Statics == IF PoolKind \in {"pairs", "chain"} THEN {<<>>, <<T1, T4>>} ELSE {<<>>, <<T1>>, <<T4, T3>>, <<T2, T2, T1>>}
Metrics == [name : Names, tags : TagLists]

VARIABLES fs, static, m
vars == <<fs, static, m>>
Init == fs = <<>> /\ static \in Statics /\ m \in Metrics
\* a parameter keeps TLC from evaluating the definition once and caching it (a zero-arity constant-level definition is a lazy value:
\* every walk used to get the same filter three times)
RandomFilter(k) == [mm |-> RandomElement(PatLists), ex |-> RandomElement(PatLists), mt |-> RandomElement(PatLists),
                 dt |-> RandomElement(PatLists), dm |-> RandomElement({TRUE, FALSE, FALSE}), dh |-> RandomElement(BOOLEAN)]
\* exhaustive over the small pool; the full pool (8M filters) is sampled with TLC's RandomElement under -simulate
Next == /\ Len(fs) < MaxFilters
        /\ IF PoolKind \in {"small", "pairs", "chain"} THEN \E f \in Filters : fs' = Append(fs, f) ELSE fs' = Append(fs, RandomFilter(Len(fs)))
        /\ UNCHANGED <<static, m>>
Spec == Init /\ [][Next]_vars

IAgreesWithP == Agree(fs, static, m)
Emit == PrintT(<<"CASE", ToJson([fs |-> fs, static |-> static, m |-> m, exp |-> PResult(fs, static, m)])>>)
=============================================================================
