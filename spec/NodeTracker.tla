------------------------------ MODULE NodeTracker ------------------------------
(* I-level model for X05: internal/cluster/nodes/tracker_redis.go, one tracker per node of the cluster, Redis pub/sub as one FIFO inbox
   per subscriber (a message reaches the trackers subscribed at the moment it is published, in publication order; a publish that fails
   reaches nobody), composed with the MembershipProp monitor.
     Run:   Subscribe (forced by pubsub.Receive) -> Intro (publish "?me", then the ticker is created) -> loop
            loop: Recv (handleMessage: "-" dropNode | "?" refreshNode + heartbeat unless it is our own | "+" refreshNode)
                  Tick (expireNodes(now) then heartbeat)         ctx.Done -> Exit1 (publish "-me") -> Exit2 (picker.Remove(me), pubsub.Close)
   refreshNode adds to the picker only when the node was not tracked; expiry is now.After(expiry): strictly later.
   The environment acts only when the cluster is at rest (Quiet) and looks at every picker afterwards (Observe), as the driver does.
   Deviation switches (each must be refuted by TLC, which shows the clauses are not vacuous):
     NoIntroReply         "?" is handled like "+": a newcomer learns about the others only at their next heartbeat
     AddAlways            picker.Add on every refresh
     IntroBeforeSubscribe the introduction request is published before the subscription is in place
     NoSelfRemove         Run returns without removing the tracker from its own picker
     ExpireInclusive      expiry at now >= expiry instead of now > expiry
     DropSilently         dropNode forgets the node without telling the picker
     ReplyToHeartbeat     a heartbeat of another node is answered like an introduction request: refuted by the liveness property ComesToRest
                          (two nodes answer each other for ever; no clause of the monitor is ever broken -- it is the cluster never being
                          at rest that is wrong) *)
EXTENDS Integers, FiniteSets, Sequences, TLC
CONSTANTS Nodes, U, E, MaxTime, MaxStarts, Deviation
VARIABLES st, nodes, inbox, tickDue, nextTick, clock, muted, starts, observed, mon
M == INSTANCE MembershipProp
vars == <<st, nodes, inbox, tickDue, nextTick, clock, muted, starts, observed, mon>>
Dev(d) == Deviation = d

Init == /\ st = [t \in Nodes |-> "off"] /\ nodes = [t \in Nodes |-> <<>>] /\ inbox = [t \in Nodes |-> <<>>]
        /\ tickDue = [t \in Nodes |-> FALSE] /\ nextTick = [t \in Nodes |-> 0] /\ clock = 0 /\ muted = {} /\ starts = 0 /\ observed = TRUE
        /\ mon = M!MInit(U, E)
Subscribed == {t \in Nodes : st[t] \in {"intro", "run", "exit1", "exit2"}}
Quiet == \A t \in Nodes : st[t] \in {"off", "run", "done"} /\ (st[t] = "run" => inbox[t] = <<>> /\ ~tickDue[t])
\* a publish: the inboxes after it, and the monitor after it
Deliver(ib, t, k, n) == IF t \in muted THEN ib ELSE [x \in Nodes |-> IF x \in Subscribed THEN Append(ib[x], <<k, n>>) ELSE ib[x]]
\* refreshNode as it changes the tracker's map, and the events it shows the monitor
Refresh(m, t, n) == IF n \in DOMAIN nodes[t] /\ ~Dev("AddAlways") THEN m ELSE M!SAdd(m, t, n)
RECURSIVE RemAll(_, _, _)
RemAll(m, t, S) == IF S = {} THEN m ELSE LET n == CHOOSE n \in S : TRUE IN RemAll(M!SRem(m, t, n), t, S \ {n})

\* ---- the environment (at rest only) ----
Start(t) == /\ Quiet /\ observed /\ st[t] \in {"off", "done"} /\ starts < MaxStarts /\ starts' = starts + 1
            /\ st' = [st EXCEPT ![t] = IF Dev("IntroBeforeSubscribe") THEN "intro0" ELSE "sub"]
            /\ nodes' = [nodes EXCEPT ![t] = <<>>] /\ inbox' = [inbox EXCEPT ![t] = <<>>]
            /\ mon' = M!SUp(mon, t) /\ observed' = FALSE /\ UNCHANGED <<tickDue, nextTick, clock, muted>>
Cancel(t) == /\ Quiet /\ observed /\ st[t] = "run" /\ st' = [st EXCEPT ![t] = "exit1"] /\ mon' = M!SCancel(mon, t) /\ observed' = FALSE
             /\ UNCHANGED <<nodes, inbox, tickDue, nextTick, clock, muted, starts>>
Mute(t) == /\ Quiet /\ observed /\ st[t] = "run" /\ t \notin muted /\ muted' = muted \cup {t} /\ mon' = M!SMute(mon, t)
           /\ UNCHANGED <<st, nodes, inbox, tickDue, nextTick, clock, starts, observed>>
Unmute(t) == /\ Quiet /\ observed /\ t \in muted /\ muted' = muted \ {t} /\ mon' = M!SUnmute(mon, t)
             /\ UNCHANGED <<st, nodes, inbox, tickDue, nextTick, clock, starts, observed>>
Advance(d) == /\ Quiet /\ observed /\ clock + d <= MaxTime /\ clock' = clock + d
              /\ LET due == {t \in Nodes : st[t] = "run" /\ nextTick[t] <= clock + d} IN
                   /\ tickDue' = [t \in Nodes |-> t \in due]
                   /\ nextTick' = [t \in Nodes |-> IF t \in due THEN nextTick[t] + U ELSE nextTick[t]]
              /\ mon' = M!SClock(mon, clock + d) /\ observed' = FALSE /\ UNCHANGED <<st, nodes, inbox, muted, starts>>
Observe == /\ Quiet /\ ~observed /\ observed' = TRUE
           /\ LET RECURSIVE Views(_, _)
                  Views(m, S) == IF S = {} THEN m ELSE LET t == CHOOSE t \in S : TRUE IN Views(M!SView(m, t, DOMAIN nodes[t]), S \ {t})
              IN mon' = Views(M!SSettle(mon), {t \in Nodes : st[t] = "run"})
           /\ UNCHANGED <<st, nodes, inbox, tickDue, nextTick, clock, muted, starts>>

\* ---- the tracker ----
Intro0(t) == /\ st[t] = "intro0" /\ st' = [st EXCEPT ![t] = "sub0"]            \* deviation: publish first
             /\ inbox' = Deliver(inbox, t, "?", t) /\ mon' = M!SPub(mon, t, "?", t, t \notin muted)
             /\ UNCHANGED <<nodes, tickDue, nextTick, clock, muted, starts, observed>>
Subscribe(t) == /\ st[t] \in {"sub", "sub0"} /\ st' = [st EXCEPT ![t] = IF st[t] = "sub" THEN "intro" ELSE "run"]
                /\ nextTick' = IF st[t] = "sub0" THEN [nextTick EXCEPT ![t] = clock + U] ELSE nextTick
                /\ UNCHANGED <<nodes, inbox, tickDue, clock, muted, starts, observed, mon>>
Intro(t) == /\ st[t] = "intro" /\ st' = [st EXCEPT ![t] = "run"] /\ nextTick' = [nextTick EXCEPT ![t] = clock + U]
            /\ inbox' = Deliver(inbox, t, "?", t) /\ mon' = M!SPub(mon, t, "?", t, t \notin muted)
            /\ UNCHANGED <<nodes, tickDue, clock, muted, starts, observed>>
Recv(t) ==
  /\ st[t] = "run" /\ inbox[t] # <<>>
  /\ LET k == Head(inbox[t])[1]  n == Head(inbox[t])[2]  rest == [inbox EXCEPT ![t] = Tail(@)] IN
       \/ /\ k = "-" /\ inbox' = rest
          /\ nodes' = [nodes EXCEPT ![t] = [x \in DOMAIN @ \ {n} |-> @[x]]]
          /\ mon' = IF n \in DOMAIN nodes[t] /\ ~Dev("DropSilently") THEN M!SRem(mon, t, n) ELSE mon
       \/ /\ ((k = "+" /\ ~(Dev("ReplyToHeartbeat") /\ n # t)) \/ (k = "?" /\ (n = t \/ Dev("NoIntroReply")))) /\ inbox' = rest
          /\ nodes' = [nodes EXCEPT ![t] = M!With(@, n, clock + E)] /\ mon' = Refresh(mon, t, n)
       \/ /\ ((k = "?" /\ ~Dev("NoIntroReply")) \/ (k = "+" /\ Dev("ReplyToHeartbeat"))) /\ n # t
          /\ nodes' = [nodes EXCEPT ![t] = M!With(@, n, clock + E)]
          /\ inbox' = Deliver(rest, t, "+", t) /\ mon' = M!SPub(Refresh(mon, t, n), t, "+", t, t \notin muted)
  /\ UNCHANGED <<st, tickDue, nextTick, clock, muted, starts, observed>>
Tick(t) ==
  /\ st[t] = "run" /\ tickDue[t] /\ tickDue' = [tickDue EXCEPT ![t] = FALSE]
  /\ LET dead == {n \in DOMAIN nodes[t] : IF Dev("ExpireInclusive") THEN clock >= nodes[t][n] ELSE clock > nodes[t][n]} IN
       /\ nodes' = [nodes EXCEPT ![t] = [x \in DOMAIN @ \ dead |-> @[x]]]
       /\ inbox' = Deliver(inbox, t, "+", t) /\ mon' = M!SPub(RemAll(mon, t, dead), t, "+", t, t \notin muted)
  /\ UNCHANGED <<st, nextTick, clock, muted, starts, observed>>
Exit1(t) == /\ st[t] = "exit1" /\ st' = [st EXCEPT ![t] = "exit2"]
            /\ inbox' = Deliver(inbox, t, "-", t) /\ mon' = M!SPub(mon, t, "-", t, t \notin muted)
            /\ UNCHANGED <<nodes, tickDue, nextTick, clock, muted, starts, observed>>
Exit2(t) == /\ st[t] = "exit2" /\ st' = [st EXCEPT ![t] = "done"] /\ inbox' = [inbox EXCEPT ![t] = <<>>] /\ tickDue' = [tickDue EXCEPT ![t] = FALSE]
            /\ nodes' = nodes       \* the map is left as it is; the picker loses the tracker itself
            /\ mon' = M!SDown(IF t \in mon.member[t] /\ ~Dev("NoSelfRemove") THEN M!SRem(mon, t, t) ELSE mon, t)
            /\ UNCHANGED <<nextTick, clock, muted, starts, observed>>

Next == \/ \E t \in Nodes : Start(t) \/ Cancel(t) \/ Mute(t) \/ Unmute(t) \/ Intro0(t) \/ Subscribe(t) \/ Intro(t) \/ Recv(t) \/ Tick(t) \/ Exit1(t) \/ Exit2(t)
        \/ \E d \in {1, U} : Advance(d)
        \/ Observe
Spec == Init /\ [][Next]_vars
\* liveness: whatever the environment did, the trackers' own steps come to an end and the cluster is looked at (no message storm)
TrackerStep == \E t \in Nodes : Intro0(t) \/ Subscribe(t) \/ Intro(t) \/ Recv(t) \/ Tick(t) \/ Exit1(t) \/ Exit2(t)
FairSpec == Spec /\ WF_vars(TrackerStep) /\ WF_vars(Observe)
ComesToRest == []<>(Quiet /\ observed)
MonitorQuiet == mon.bad = ""
\* the tracker's map and its picker go together (what refreshNode / dropNode / expireNodes maintain)
MapIsPicker == \A t \in Nodes : st[t] = "run" /\ ~Dev("AddAlways") /\ ~Dev("DropSilently") => DOMAIN nodes[t] = mon.member[t]
=============================================================================
