------------------------------ MODULE MembershipTrace ------------------------------
(* R3 for X05: the runs recorded by harness/nodes (real trackers over a miniredis server, mock clock) against the MembershipProp monitor. *)
EXTENDS MembershipProp, TLC, TLCExt, Json, IOUtils
Log == ndJsonDeserialize(IOEnv.VERIF_TRACE)
VARIABLES l, mon, bad
tvars == <<l, mon, bad>>
TInit == TLCSet(1, 0) /\ l = 1 /\ mon = MInit(1, 1) /\ bad = ""
Range(s) == {s[i] : i \in 1..Len(s)}
Apply(m, e) ==
  CASE e.ev = "start"  -> MInit(e.u, e.e)
    [] e.ev = "up"     -> SUp(m, e.t)
    [] e.ev = "cancel" -> SCancel(m, e.t)
    [] e.ev = "down"   -> SDown(m, e.t)
    [] e.ev = "mute"   -> SMute(m, e.t)
    [] e.ev = "unmute" -> SUnmute(m, e.t)
    [] e.ev = "clock"  -> SClock(m, e.c)
    [] e.ev = "pub"    -> SPub(m, e.t, e.k, e.n, e.ok)
    [] e.ev = "add"    -> SAdd(m, e.t, e.n)
    [] e.ev = "rem"    -> SRem(m, e.t, e.n)
    [] e.ev = "settle" -> SSettle(m)
    [] e.ev = "view"   -> SView(m, e.t, Range(e.s))
    [] e.ev = "select" -> SSelect(m, e.t, e.own, e.self, e.err)
    [] OTHER           -> m
TNext == l <= Len(Log) /\ l' = l + 1 /\ mon' = Apply(mon, Log[l]) /\ bad' = mon'.bad
TSpec == TInit /\ [][TNext]_tvars
HighWater == TLCSet(1, IF l > TLCGet(1) THEN l ELSE TLCGet(1))
Accepted == TLCGet(1) = Len(Log) + 1
PropertyHolds == bad = ""
=============================================================================
