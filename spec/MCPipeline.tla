------------------------------ MODULE MCPipeline ------------------------------
EXTENDS Pipeline
\* 5 datapoints over 3 series; three batches; bucket functions enumerated via the constant BK
Key5 == <<"a", "a", "b", "c", "b">>
B3 == << {1, 3}, {2, 4}, {5} >>
B4 == << {1, 3}, {2, 4}, {5}, {6} >>
Key6 == <<"a", "a", "b", "c", "b", "c">>
Bk2a == [k \in {"a", "b", "c"} |-> IF k = "a" THEN 0 ELSE 1]
Bk2b == [k \in {"a", "b", "c"} |-> IF k = "c" THEN 1 ELSE 0]
Bk1  == [k \in {"a", "b", "c"} |-> 0]
Bk3  == [k \in {"a", "b", "c"} |-> CASE k = "a" -> 0 [] k = "b" -> 1 [] OTHER -> 2]
=============================================================================
